package main

import (
	"fmt"
	"go/types"

	"golang.org/x/tools/go/ssa"
)

// LazyArr backs a slice whose length is symbolic and larger than the allocation bound of the harness
// (DESIGN 2.5: make with a wire-controlled length). Elements are created on demand.
type LazyArr struct {
	Len    *Term // 64-bit
	Elem   types.Type
	Sparse map[int]*Cell
	A      *Alloc
}

// makeSymSlice handles make([]T, n) with symbolic n: panic path for n<0, one path per concrete
// n in [0, allocBound], and a lazy slice for n > allocBound.
func (x *Exec) makeSymSlice(elem types.Type, n *Term, site string) Value {
	x.mustHold(x.ctx.SLe(x.ctx.BV(0, 64), n), "makeslice: len out of range")
	k, ok := x.concretize(n, 0, x.allocBound(), true)
	if ok {
		return x.makeSlice(elem, k, k, site)
	}
	x.res.LazyAllocs = append(x.res.LazyAllocs, site)
	return Slice{Lazy: &LazyArr{Len: n, Elem: elem, Sparse: map[int]*Cell{}, A: x.newAlloc(site, "lazy")}}
}

func (x *Exec) allocBound() int {
	if x.h != nil && x.h.AllocBound > 0 {
		return x.h.AllocBound
	}
	return 4
}

func (x *Exec) lazyLen(s Slice) *Term { return s.Lazy.Len }

func (x *Exec) lazyCell(s Slice, i int) *Cell {
	if c, ok := s.Lazy.Sparse[i]; ok {
		return c
	}
	c := &Cell{A: s.Lazy.A}
	c.V = x.zero(s.Lazy.Elem, s.Lazy.A)
	s.Lazy.Sparse[i] = c
	return c
}

func (x *Exec) lazyIndexAddr(s Slice, idx *Term) Value {
	inb := x.ctx.BAnd(x.ctx.SLe(x.ctx.BV(0, 64), idx), x.ctx.SLt(idx, s.Lazy.Len))
	x.mustHold(inb, "index out of range [symbolic] with symbolic length")
	if !idx.IsConst() {
		panic(x.unsupported("symbolic index into lazy slice"))
	}
	return x.lazyCell(s, int(idx.SVal()))
}

func (x *Exec) lazyForce(s Slice) Slice {
	panic(x.unsupported("whole-slice use of a lazy (symbolic-length) slice"))
}

func (x *Exec) lazySliceOp(fr *frame, in *ssa.Slice, s Slice) Value {
	if in.Low == nil && in.High == nil && in.Max == nil {
		return s
	}
	if in.High == nil && in.Max == nil {
		lo := x.idxTerm(fr, in.Low)
		if lo.IsConst() && lo.Val == 0 {
			return s
		}
	}
	panic(x.unsupported(fmt.Sprintf("sub-slice of lazy slice")))
}
