package main

// Contract stubs for the third-party block compressors (DESIGN 2.4). The compressors themselves are not encoded;
// a compressed block is a sequence of opaque bytes blk(id, i) whose identity carries the original content.

import (
	"fmt"
	"go/types"

	"golang.org/x/tools/go/ssa"
)

type cblock struct {
	id  int
	alg string
	src []*Term // original bytes (concrete length)
	k   int     // compressed length on this path
}

// sameBlock finds an earlier block of the same algorithm over term-wise identical input: the block compressors are
// deterministic functions of their input, so compressing the same bytes twice yields the same block.
func (x *Exec) sameBlock(alg string, src []*Term) (*cblock, string) {
	for name, b := range x.blocks {
		if b.alg != alg || len(b.src) != len(src) {
			continue
		}
		same := true
		for i := range src {
			if b.src[i] != src[i] {
				same = false
				break
			}
		}
		if same {
			return b, name
		}
	}
	return nil, ""
}

func (x *Exec) blockBytes(name string, k int) []*Term {
	out := make([]*Term, k)
	for i := range out {
		out[i] = x.ctx.App(name, 8, x.ctx.BV(uint64(i), 16))
	}
	return out
}

func (x *Exec) newBlock(alg string, src []*Term, k int) (*cblock, []*Term) {
	x.blockSeq++
	b := &cblock{id: x.blockSeq, alg: alg, src: src, k: k}
	if x.blocks == nil {
		x.blocks = map[string]*cblock{}
	}
	name := fmt.Sprintf("%sblk%d", alg, b.id)
	x.blocks[name] = b
	out := make([]*Term, k)
	for i := range out {
		out[i] = x.ctx.App(name, 8, x.ctx.BV(uint64(i), 16))
	}
	return b, out
}

// recognise reports whether cells are exactly the bytes 0..k-1 of one block.
func (x *Exec) recogniseBlock(cells []Cell) *cblock {
	if len(cells) == 0 {
		return nil
	}
	var blk *cblock
	for i, c := range cells {
		t, ok := c.V.(*Term)
		if !ok || t.Op != OpApp || len(t.Args) != 1 || !t.Args[0].IsConst() || int(t.Args[0].Val) != i {
			return nil
		}
		b := x.blocks[t.Name]
		if b == nil || (blk != nil && b != blk) {
			return nil
		}
		blk = b
	}
	if blk.k != len(cells) {
		return nil
	}
	return blk
}

// compressedLen picks the compressed length according to the policy of the harness.
// lo/hi: bounds allowed by the library contract for an input of n bytes.
func (x *Exec) compressedLen(n, lo, hi int) int {
	switch x.compressPolicy {
	case 1:
		return lo
	case 2:
		return hi
	}
	return lo + x.chooseN(hi-lo+1)
}

func registerCompress(e *Engine) {
	I := e.intrinsics
	lz4Bound := func(n int) int { return n + n/255 + 16 }
	I["github.com/pierrec/lz4/v4.CompressBlock"] = func(x *Exec, caller *frame, fn *ssa.Function, args []Value) Value {
		src := args[0].(Slice)
		dst := args[1].(Slice)
		n := len(src.C)
		if len(dst.C) < lz4Bound(n) {
			panic(x.unsupported("lz4.CompressBlock stub: destination smaller than CompressBlockBound (outside the modelled contract)"))
		}
		// shortest block the contract allows: the LZ4 format cannot exceed 255:1 and needs a few bytes of
		// sequence overhead; inputs under 12 bytes are stored as literals (token + bytes)
		lo := n/255 + 12
		if n+1 < lo {
			lo = n + 1
		}
		hi := lz4Bound(n)
		if n == 0 {
			lo, hi = 1, 1 // the empty input is the one-byte block 0x00 (documented in the wrapper, observed natively)
		}
		if n == 0 {
			x.store(&dst.C[0], x.ctx.BV(0, 8))
			return Tuple{x.intTerm(1), Iface{}}
		}
		var bs []*Term
		if b, name := x.sameBlock("lz4", sliceBytes(src)); b != nil {
			bs = x.blockBytes(name, b.k)
		} else {
			k := x.compressedLen(n, lo, hi)
			_, bs = x.newBlock("lz4", sliceBytes(src), k)
		}
		k := len(bs)
		for i := range bs {
			x.store(&dst.C[i], bs[i])
		}
		return Tuple{x.intTerm(k), Iface{}}
	}
	I["github.com/pierrec/lz4/v4.UncompressBlock"] = func(x *Exec, caller *frame, fn *ssa.Function, args []Value) Value {
		src := args[0].(Slice)
		dst := args[1].(Slice)
		if len(src.C) == 0 {
			return Tuple{x.intTerm(0), Iface{}}
		}
		errShort := x.namedConstIface("github.com/pierrec/lz4/v4/internal/lz4errors", "ErrInvalidSourceShortBuffer")
		if t, ok := src.C[0].V.(*Term); ok && len(src.C) == 1 && t.IsConst() && t.Val == 0 {
			// pierrec/lz4 v4.0.3 refuses the one-byte block of the empty input whatever the destination size
			return Tuple{x.intTerm(0), errShort}
		}
		if blk := x.recogniseBlock(src.C); blk != nil && blk.alg == "lz4" {
			if len(dst.C) < len(blk.src) || len(blk.src) == 0 {
				// pierrec/lz4 v4.0.3 refuses the one-byte block of the empty input whatever the destination size
				// (observed natively; the wrapper's DecompressWithLength works around it)
				return Tuple{x.intTerm(0), errShort}
			}
			for i, b := range blk.src {
				x.store(&dst.C[i], b)
			}
			return Tuple{x.intTerm(len(blk.src)), Iface{}}
		}
		// arbitrary bytes: the library either fails or produces some output that fits; it never panics
		if x.chooseN(2) == 0 {
			return Tuple{x.intTerm(0), errShort}
		}
		m := x.chooseN(len(dst.C) + 1)
		for i := 0; i < m; i++ {
			x.store(&dst.C[i], x.ndVar("lz4.garbage", 8))
		}
		return Tuple{x.intTerm(m), Iface{}}
	}
	I["github.com/golang/snappy.Encode"] = func(x *Exec, caller *frame, fn *ssa.Function, args []Value) Value {
		src := args[1].(Slice)
		n := len(src.C)
		lo := 1 + n/64 // varint length header plus at least one element per 64 bytes copied
		if n > 0 {
			lo++
		}
		hi := 32 + n + n/6 // snappy.MaxEncodedLen
		if b, name := x.sameBlock("snappy", sliceBytes(src)); b != nil {
			return x.bytesToSlice(x.blockBytes(name, b.k), "snappy.Encode")
		}
		k := x.compressedLen(n, lo, hi)
		_, bs := x.newBlock("snappy", sliceBytes(src), k)
		return x.bytesToSlice(bs, "snappy.Encode")
	}
	I["github.com/golang/snappy.Decode"] = func(x *Exec, caller *frame, fn *ssa.Function, args []Value) Value {
		src := args[1].(Slice)
		errCorrupt := x.load(x.globalByNameOrErr("github.com/golang/snappy", "ErrCorrupt"))
		if blk := x.recogniseBlock(src.C); blk != nil && blk.alg == "snappy" {
			if len(blk.src) == 0 {
				return Tuple{Slice{C: []Cell{}}, Iface{}}
			}
			return Tuple{x.bytesToSlice(append([]*Term{}, blk.src...), "snappy.Decode"), Iface{}}
		}
		if x.chooseN(2) == 0 {
			return Tuple{Slice{Nil: true}, errCorrupt}
		}
		m := x.chooseN(x.allocBound() + 1)
		out := make([]*Term, m)
		for i := range out {
			out[i] = x.ndVar("snappy.garbage", 8)
		}
		if m == 0 {
			return Tuple{Slice{C: []Cell{}}, Iface{}}
		}
		return Tuple{x.bytesToSlice(out, "snappy.Decode"), Iface{}}
	}
	I[ndPath+".CompressPolicy"] = func(x *Exec, caller *frame, fn *ssa.Function, args []Value) Value {
		x.compressPolicy = x.concreteInt(args[0], "policy")
		return nil
	}
	_ = types.Typ
}

// namedConstIface boxes a package-level typed constant (e.g. an error constant of a string type) in an interface.
func (x *Exec) namedConstIface(pkg, name string) Value {
	p := x.eng.ssaPkgs[pkg]
	if p == nil {
		panic(x.unsupported("no package " + pkg))
	}
	nc, ok := p.Members[name].(*ssa.NamedConst)
	if !ok {
		panic(x.unsupported("no constant " + pkg + "." + name))
	}
	return Iface{T: nc.Type(), V: x.constValue(nc.Value)}
}

// globalByNameOrErr returns the cell of a package-level error variable, creating an opaque error if the package's
// init has not run.
func (x *Exec) globalByNameOrErr(pkg, name string) *Cell {
	c := x.globalByName(pkg, name)
	if iv, ok := c.V.(Iface); ok && iv.T == nil {
		c.V = x.newErr(pkg+"."+name, nil)
	}
	return c
}
