package main

import (
	"fmt"
	"math/big"
	"regexp"
	"os"
	"path/filepath"
	"sort"
	"strings"
	"sync"
	"time"
)

// C07: error-detection queries over the parity-check system extracted from the real decoder's acceptance
// condition (DESIGN 5/C07, difference form). For an affine acceptance condition A.x = c, two inputs x and x^e are
// both accepted only if A.e = 0; the queries ask the solver for a non-zero e of the given class with A.e = 0.

type parityQuery struct {
	Name    string
	Script  string
	Bits    int
	Timeout time.Duration
	// for replay
	Names  []string // basis names
	Order  []int    // wire order
	Rows   [][]int
	Kind   int // 0,1 header; 2 payload
	From   int // first burst offset of this script (-1 for weight scripts)
	PayloadLen int
	// cross-path queries: x accepted through path i, x^e accepted through path j
	Cross  bool
	Ei, Ej []affBit
	Rhs    []bool
}

// parityRows returns for each equation the sorted list of basis indices.
func parityRows(eqs []affBit, n int) [][]int {
	var rows [][]int
	for _, e := range eqs {
		var r []int
		for i := 0; i < n; i++ {
			if e.vars.Bit(i) == 1 {
				r = append(r, i)
			}
		}
		rows = append(rows, r)
	}
	return rows
}

func xorExpr(vars []string) string {
	if len(vars) == 0 {
		return "false"
	}
	if len(vars) == 1 {
		return vars[0]
	}
	// balanced tree keeps the formula shallow
	mid := len(vars) / 2
	return "(xor " + xorExpr(vars[:mid]) + " " + xorExpr(vars[mid:]) + ")"
}

// weightScript: exists e with A.e=0 and wlo <= weight(e) <= whi.
func weightScript(rows [][]int, n, wlo, whi int) string { return weightScriptRhs(rows, nil, n, wlo, whi) }

// weightScriptRhs: exists e with A.e = rhs and wlo <= weight(e) <= whi (rhs nil = all zero).
func weightScriptRhs(rows [][]int, rhs []bool, n, wlo, whi int) string {
	var sb strings.Builder
	for i := 0; i < n; i++ {
		fmt.Fprintf(&sb, "(declare-const e%d Bool)\n", i)
	}
	for ri, r := range rows {
		vs := make([]string, len(r))
		for i, k := range r {
			vs[i] = fmt.Sprintf("e%d", k)
		}
		if rhs != nil && rhs[ri] {
			fmt.Fprintf(&sb, "(assert %s)\n", xorExpr(vs))
		} else {
			fmt.Fprintf(&sb, "(assert (not %s))\n", xorExpr(vs))
		}
	}
	// weight as a bit-vector sum
	w := 8
	for (1 << uint(w)) <= n {
		w++
	}
	var terms []string
	for i := 0; i < n; i++ {
		terms = append(terms, fmt.Sprintf("(ite e%d (_ bv1 %d) (_ bv0 %d))", i, w, w))
	}
	sum := sumExpr(terms)
	fmt.Fprintf(&sb, "(define-fun wt () (_ BitVec %d) %s)\n", w, sum)
	fmt.Fprintf(&sb, "(assert (bvuge wt (_ bv%d %d)))\n(assert (bvule wt (_ bv%d %d)))\n", wlo, w, whi, w)
	sb.WriteString("(check-sat)\n(get-model)\n")
	return sb.String()
}

func sumExpr(ts []string) string {
	if len(ts) == 1 {
		return ts[0]
	}
	mid := len(ts) / 2
	return "(bvadd " + sumExpr(ts[:mid]) + " " + sumExpr(ts[mid:]) + ")"
}

// burstScript: for every start position s on the wire, is there an error pattern whose first flipped bit is s and
// whose last flipped bit is at most s+blen-1, with A.e = 0? One push/pop query per start position in a single
// solver run; the unknowns are the blen-1 bits after the first.
// order[i] = basis index of the i-th bit on the wire.
func burstScript(rows [][]int, order []int, blen int, from, to int) string {
	n := len(order)
	if to > n {
		to = n
	}
	var sb strings.Builder
	pos := map[int]int{}
	for i, k := range order {
		pos[k] = i
	}
	for i := 1; i < blen; i++ {
		fmt.Fprintf(&sb, "(declare-const b%d Bool)\n", i)
	}
	for s := from; s < to; s++ {
		sb.WriteString("(push 1)\n")
		for _, r := range rows {
			var bits []string
			for _, k := range r {
				p := pos[k]
				if p == s {
					bits = append(bits, "true")
				} else if p > s && p < s+blen {
					bits = append(bits, fmt.Sprintf("b%d", p-s))
				}
			}
			if len(bits) == 0 {
				continue
			}
			fmt.Fprintf(&sb, "(assert (not %s))\n", xorExpr(bits))
		}
		sb.WriteString("(check-sat)\n(pop 1)\n")
	}
	return sb.String()
}

// burstScriptReduced is burstScript with the XOR system of every start position brought to reduced row echelon form
// (Gauss-Jordan over GF(2)) before it is handed to the solver: CDCL solvers have no XOR reasoning and need ~10 s
// per 32x31 system otherwise (measured: z3 11-14 s, z3-new 23 s, cvc5 > 60 s). The solver still decides each reduced
// system; the unreduced form is kept for the smallest payload as a cross-check of the elimination.
func burstScriptReduced(rows [][]int, order []int, blen int, from, to int) string {
	return burstScriptReducedRhs(rows, nil, order, blen, from, to, false)
}

// burstScriptReducedRhs: as above for A.e = rhs; withModel adds (get-model) after each check-sat.
func burstScriptReducedRhs(rows [][]int, rhs []bool, order []int, blen int, from, to int, withModel bool) string {
	n := len(order)
	if to > n {
		to = n
	}
	pos := map[int]int{}
	for i, k := range order {
		pos[k] = i
	}
	var sb strings.Builder
	for i := 1; i < blen; i++ {
		fmt.Fprintf(&sb, "(declare-const b%d Bool)\n", i)
	}
	for s := from; s < to; s++ {
		// build augmented matrix: bit i (1..blen-1) = coefficient of b_i, bit 0 = right-hand side
		var m []uint64
		for ri, r := range rows {
			var row uint64
			if rhs != nil && rhs[ri] {
				row ^= 1
			}
			for _, k := range r {
				p := pos[k]
				if p == s {
					row ^= 1
				} else if p > s && p < s+blen {
					row ^= uint64(1) << uint(p-s)
				}
			}
			if row != 0 {
				m = append(m, row)
			}
		}
		// Gauss-Jordan
		rank := 0
		for col := blen - 1; col >= 1; col-- {
			piv := -1
			for i := rank; i < len(m); i++ {
				if m[i]>>uint(col)&1 == 1 {
					piv = i
					break
				}
			}
			if piv < 0 {
				continue
			}
			m[rank], m[piv] = m[piv], m[rank]
			for i := range m {
				if i != rank && m[i]>>uint(col)&1 == 1 {
					m[i] ^= m[rank]
				}
			}
			rank++
		}
		sb.WriteString("(push 1)\n")
		for _, row := range m {
			if row == 0 {
				continue
			}
			var bits []string
			for i := blen - 1; i >= 1; i-- {
				if row>>uint(i)&1 == 1 {
					bits = append(bits, fmt.Sprintf("b%d", i))
				}
			}
			rv := "false"
			if row&1 == 1 {
				rv = "true"
			}
			if len(bits) == 0 {
				fmt.Fprintf(&sb, "(assert (= false %s))\n", rv)
			} else {
				fmt.Fprintf(&sb, "(assert (= %s %s))\n", xorExpr(bits), rv)
			}
		}
		if withModel {
			sb.WriteString("(check-sat)\n(get-model)\n(pop 1)\n")
		} else {
			sb.WriteString("(check-sat)\n(pop 1)\n")
		}
	}
	return sb.String()
}

type parityResult struct {
	Name   string
	Result string
	Sec    float64
	Model  string
}

func runParityQueries(qs []parityQuery, workers int) []parityResult {
	res := make([]parityResult, len(qs))
	ch := make(chan int)
	var wg sync.WaitGroup
	for w := 0; w < workers; w++ {
		wg.Add(1)
		go func() {
			defer wg.Done()
			for i := range ch {
				r, d, out := runScriptModel([]string{"z3"}, qs[i].Script, qs[i].Timeout)
				res[i] = parityResult{Name: qs[i].Name, Result: r, Sec: d.Seconds(), Model: out}
			}
		}()
	}
	for i := range qs {
		ch <- i
	}
	close(ch)
	wg.Wait()
	return res
}

func runScriptModel(bin []string, script string, timeout time.Duration) (string, time.Duration, string) {
	f, err := os.CreateTemp("", "gosym-*.smt2")
	if err != nil {
		return "error", 0, ""
	}
	defer os.Remove(f.Name())
	f.WriteString(script)
	f.Close()
	t0 := time.Now()
	out, err := runWithTimeout(append(append([]string{}, bin...), f.Name()), timeout)
	d := time.Since(t0)
	if err != nil && out == "" {
		return "timeout", d, ""
	}
	first := strings.TrimSpace(strings.SplitN(out, "\n", 2)[0])
	lines := strings.Fields(out)
	if len(lines) > 1 && !strings.Contains(out, "(") {
		// several check-sat answers (push/pop script): all must be unsat
		agg := "unsat"
		for i, l := range lines {
			switch l {
			case "unsat":
			case "sat":
				return "sat", d, fmt.Sprintf("query #%d of %d is sat", i, len(lines))
			default:
				agg = "unknown"
			}
		}
		return agg, d, out
	}
	switch first {
	case "sat", "unsat", "unknown":
		return first, d, out
	}
	if strings.Contains(out, "(error") && !strings.HasPrefix(first, "unsat") {
		return "error", d, out
	}
	return "error", d, out
}

// c07Post extracts the parity-check systems from the exported acceptance conditions and discharges the queries.
func c07Post(c *CheckCtx) error {
	type sys struct {
		name    string
		harness string
		eqs     []affBit
		rows  [][]int
		n     int
		order []int
		names []string
	}
	var systems []sys
	for _, r := range c.Results {
		// one variable numbering per harness, so that the systems of its accepting paths can be combined
		a := newAffCtx()
		type pend struct {
			name string
			eqs  []affBit
		}
		var ps []pend
		for _, ex := range r.Exports {
			var eqs []affBit
			dropped := 0
			for _, lit := range ex.PC {
				sub := newAffCtxShared(a)
				e, ok := sub.equations([]*Term{lit})
				if !ok {
					dropped++
					continue
				}
				eqs = append(eqs, e...)
			}
			if len(eqs) == 0 && dropped == 0 {
				// an acceptance condition with no parity equation at all accepts every byte string: the empty system
				// goes to the solver like any other (every error pattern is in its kernel)
				c.Info = append(c.Info, fmt.Sprintf("%s/%s: the acceptance condition constrains no input bit", r.Name, ex.Name))
			} else if len(eqs) == 0 {
				c.Problems = append(c.Problems, fmt.Sprintf("%s/%s: acceptance condition is not affine (%s)", r.Name, ex.Name, a.failWhy))
				continue
			}
			ps = append(ps, pend{r.Name + "/" + ex.Name, eqs})
			c.Samples = append(c.Samples, map[string]interface{}{"acceptance_system": r.Name + "/" + ex.Name, "parity_equations": len(eqs), "non_affine_literals_dropped": dropped})
		}
		// every input bit of a payload harness takes part in the error classes, also those no equation mentions
		// (a decoder path that compares nothing would otherwise have no variables at all)
		if m := regexp.MustCompile(`PayloadAccept\w*_n(\d+)$`).FindStringSubmatch(r.Name); m != nil && len(ps) > 0 {
			var nb int
			fmt.Sscanf(m[1], "%d", &nb)
			for i := 0; i < nb+4; i++ {
				for b := 0; b < 8; b++ {
					a.varBit(fmt.Sprintf("x[%d]", i), 8, b)
				}
			}
		}
		n := len(a.names)
		// wire order: by byte index then bit (names look like x[3]!8:5)
		idx := make([]int, n)
		for i := range idx {
			idx[i] = i
		}
		sort.Slice(idx, func(i, j int) bool { return wireKey(a.names[idx[i]]) < wireKey(a.names[idx[j]]) })
		for k, p := range ps {
			name := p.name
			if len(ps) > 1 {
				name = fmt.Sprintf("%s#%d", p.name, k)
			}
			systems = append(systems, sys{name: name, harness: r.Name, eqs: p.eqs, rows: parityRows(p.eqs, n), n: n, order: idx, names: a.names})
		}
	}
	if len(systems) == 0 {
		return fmt.Errorf("no acceptance condition exported")
	}
	var qs []parityQuery
	to := 120 * time.Second
	if c.Tier == "thorough" {
		to = 1200 * time.Second
	}
	for _, s := range systems {
		switch {
		case strings.Contains(s.name, "Header"):
			maxw := 7
			kind := 0
			if s.n > 48 {
				kind = 1
			}
			for w := 1; w <= maxw; w++ {
				qs = append(qs, parityQuery{Name: fmt.Sprintf("%s: no accepted pair differs in exactly %d of the %d header+CRC bits", s.name, w, s.n), Script: weightScript(s.rows, s.n, w, w), Timeout: to,
					Names: s.names, Order: s.order, Rows: s.rows, Kind: kind, From: -1})
			}
		default:
			pl := s.n/8 - 4
			pk := 2
			if strings.Contains(s.name, "LZ4Raw") {
				pk = 3
			}
			qs = append(qs, parityQuery{Name: fmt.Sprintf("%s: no accepted pair differs in 1 or 2 of the %d payload+CRC bits", s.name, s.n), Script: weightScript(s.rows, s.n, 1, 2), Timeout: to,
				Names: s.names, Order: s.order, Rows: s.rows, Kind: pk, From: -1, PayloadLen: pl})
			for from := 0; from < s.n; from += 64 {
				qs = append(qs, parityQuery{Name: fmt.Sprintf("%s: no accepted pair differs by a burst of at most 32 bits starting at wire bit %d..%d of the %d payload+CRC bits (XOR systems in reduced echelon form)", s.name, from, from+63, s.n), Script: burstScriptReduced(s.rows, s.order, 32, from, from+64), Timeout: to,
					Names: s.names, Order: s.order, Rows: s.rows, Kind: pk, From: from, PayloadLen: pl})
			}
			if s.n <= 40 {
				qs = append(qs, parityQuery{Name: fmt.Sprintf("%s: same burst query on the unreduced XOR systems (cross-check of the elimination)", s.name), Script: burstScript(s.rows, s.order, 32, 0, s.n), Timeout: 4 * to,
					Names: s.names, Order: s.order, Rows: s.rows, Kind: pk, From: 0, PayloadLen: pl})
			}
		}
	}
	// acceptance through different paths: the accepted set is a union of affine spaces, so x and x^e may be accepted
	// by two different paths; eliminating x from  A_i.x = c_i  and  A_j.(x^e) = c_j  leaves an affine system R.e = d
	for i := range systems {
		for j := range systems {
			if i == j || systems[i].harness != systems[j].harness {
				continue
			}
			si, sj := systems[i], systems[j]
			rows, rhs, consistent := crossResidual(si.eqs, sj.eqs, si.n)
			if !consistent {
				c.Oblig = append(c.Oblig, Obligation{Name: fmt.Sprintf("%s -> %s: no input is accepted through both path conditions whatever the error (inconsistent after eliminating the input)", si.name, sj.name), Result: "unsat", Solver: "GF(2) elimination"})
				continue
			}
			kind, pl := 10, 0
			switch {
			case strings.Contains(si.name, "Header") && si.n > 48:
				kind = 11
			case strings.Contains(si.name, "Header"):
				kind = 10
			default:
				kind, pl = 12, si.n/8-4
			}
			base := parityQuery{Timeout: to, Names: si.names, Order: si.order, Rows: rows, Rhs: rhs, Kind: kind, PayloadLen: pl, Cross: true, Ei: si.eqs, Ej: sj.eqs}
			if kind != 12 {
				q := base
				q.Name = fmt.Sprintf("%s -> %s: no input accepted through the first path is accepted through the second after 1..7 bit flips", si.name, sj.name)
				q.Script, q.From = weightScriptRhs(rows, rhs, si.n, 1, 7), -1
				qs = append(qs, q)
			} else {
				q := base
				q.Name = fmt.Sprintf("%s -> %s: no payload accepted through the first path is accepted through the second after 1 or 2 bit flips", si.name, sj.name)
				q.Script, q.From = weightScriptRhs(rows, rhs, si.n, 1, 2), -1
				qs = append(qs, q)
				for from := 0; from < si.n; from += 64 {
					q := base
					q.Name = fmt.Sprintf("%s -> %s: nor after a burst of at most 32 bits starting at wire bit %d..%d", si.name, sj.name, from, from+63)
					q.Script, q.From = burstScriptReducedRhs(rows, rhs, si.order, 32, from, from+64, false), from
					qs = append(qs, q)
				}
			}
		}
	}
	results := runParityQueries(qs, c.Workers)
	os.MkdirAll(filepath.Join(c.Verif, "replays"), 0o755)
	for qi, r := range results {
		c.Oblig = append(c.Oblig, Obligation{Name: r.Name, Result: r.Result, Sec: round3(r.Sec), Solver: "z3 4.8.12 one-shot"})
		switch r.Result {
		case "unsat":
		case "sat":
			w := parityWitness(qs[qi], r.Model)
			msg := "corrupted header is rejected"
			if qs[qi].Kind == 2 || qs[qi].Kind == 3 || qs[qi].Kind == 12 {
				msg = "corrupted payload is rejected"
			}
			c.Viol = append(c.Viol, Violation{Key: "segment.VerifReplayC07|" + r.Name, Harness: "segment.VerifReplayC07", Msg: msg, Witness: w, Kind: "assert"})
		default:
			c.Problems = append(c.Problems, fmt.Sprintf("obligation %q: %s after %.0fs", r.Name, r.Result, r.Sec))
		}
	}
	return nil
}


// crossResidual eliminates the input bits x from  A_i.x = c_i  and  A_j.(x^e) = c_j  (Gauss over GF(2)); the rows
// that remain constrain e alone: R.e = d. consistent=false: the two systems exclude each other for every e.
func crossResidual(ei, ej []affBit, n int) (rows [][]int, rhs []bool, consistent bool) {
	var m []*big.Int
	for _, e := range ei {
		r := new(big.Int).Set(e.vars)
		if e.c {
			r.SetBit(r, 2*n, 1)
		}
		m = append(m, r)
	}
	for _, e := range ej {
		r := new(big.Int).Set(e.vars)
		r.Or(r, new(big.Int).Lsh(e.vars, uint(n)))
		if e.c {
			r.SetBit(r, 2*n, 1)
		}
		m = append(m, r)
	}
	rank := 0
	for col := 0; col < n && rank < len(m); col++ {
		piv := -1
		for i := rank; i < len(m); i++ {
			if m[i].Bit(col) == 1 {
				piv = i
				break
			}
		}
		if piv < 0 {
			continue
		}
		m[rank], m[piv] = m[piv], m[rank]
		for i := rank + 1; i < len(m); i++ {
			if m[i].Bit(col) == 1 {
				m[i].Xor(m[i], m[rank])
			}
		}
		rank++
	}
	for _, r := range m[rank:] {
		var idx []int
		for k := 0; k < n; k++ {
			if r.Bit(n+k) == 1 {
				idx = append(idx, k)
			}
		}
		d := r.Bit(2*n) == 1
		if len(idx) == 0 {
			if d {
				return nil, nil, false
			}
			continue
		}
		rows = append(rows, idx)
		rhs = append(rhs, d)
	}
	return rows, rhs, true
}

// crossInput solves  A_i.x = c_i,  A_j.x = c_j ^ A_j.e  for x (free variables 0); ok=false if there is none.
func crossInput(ei, ej []affBit, n int, e *big.Int) (*big.Int, bool) {
	var m []*big.Int
	for _, q := range ei {
		r := new(big.Int).Set(q.vars)
		if q.c {
			r.SetBit(r, n, 1)
		}
		m = append(m, r)
	}
	for _, q := range ej {
		r := new(big.Int).Set(q.vars)
		par := uint(0)
		t := new(big.Int).And(q.vars, e)
		for _, w := range t.Bits() {
			for ; w != 0; w &= w - 1 {
				par ^= 1
			}
		}
		c := q.c
		if par == 1 {
			c = !c
		}
		if c {
			r.SetBit(r, n, 1)
		}
		m = append(m, r)
	}
	var pivCol []int
	rank := 0
	for col := 0; col < n && rank < len(m); col++ {
		piv := -1
		for i := rank; i < len(m); i++ {
			if m[i].Bit(col) == 1 {
				piv = i
				break
			}
		}
		if piv < 0 {
			continue
		}
		m[rank], m[piv] = m[piv], m[rank]
		for i := range m {
			if i != rank && m[i].Bit(col) == 1 {
				m[i].Xor(m[i], m[rank])
			}
		}
		pivCol = append(pivCol, col)
		rank++
	}
	for _, r := range m[rank:] {
		if r.Bit(n) == 1 {
			return nil, false
		}
	}
	x := new(big.Int)
	for i, col := range pivCol {
		if m[i].Bit(n) == 1 {
			x.SetBit(x, col, 1)
		}
	}
	return x, true
}

func firstLines(s string, n int) string {
	l := strings.Split(s, "\n")
	if len(l) > n {
		l = l[:n]
	}
	return strings.Join(l, " ")
}

// wireKey orders basis names "x[12]!8:3" by byte index, then bit (most significant first on the wire is irrelevant
// for bursts within a byte order; use LSB-first consistently).
func wireKey(name string) int {
	var byteIdx, w, bit int
	i := strings.Index(name, "[")
	if i < 0 {
		return 0
	}
	fmt.Sscanf(name[i:], "[%d]!%d:%d", &byteIdx, &w, &bit)
	return byteIdx*8 + bit
}

var modelBoolRe = regexp.MustCompile(`\(define-fun (\w+) \(\) Bool\s+(true|false)\)`)

// parityWitness turns a solver model (or the index of a satisfiable burst position) into the input of VerifReplayC07.
func parityWitness(q parityQuery, model string) map[string]string {
	bits := map[int]bool{} // wire position -> flipped
	if q.From < 0 {
		for _, m := range modelBoolRe.FindAllStringSubmatch(model, -1) {
			if m[2] == "true" && strings.HasPrefix(m[1], "e") {
				var k int
				fmt.Sscanf(m[1], "e%d", &k)
				for p, idx := range q.Order {
					if idx == k {
						bits[p] = true
					}
				}
			}
		}
	} else {
		var i, n int
		fmt.Sscanf(model, "query #%d of %d is sat", &i, &n)
		s := q.From + i
		var script string
		if q.Cross {
			script = burstScriptReducedRhs(q.Rows, q.Rhs, q.Order, 32, s, s+1, true)
		} else {
			script = burstScript(q.Rows, q.Order, 32, s, s+1)
			script = strings.Replace(script, "(check-sat)\n(pop 1)", "(check-sat)\n(get-model)\n(pop 1)", 1)
		}
		_, _, out := runScriptModel([]string{"z3"}, script, 300*time.Second)
		bits[s] = true
		for _, m := range modelBoolRe.FindAllStringSubmatch(out, -1) {
			if m[2] == "true" && strings.HasPrefix(m[1], "b") {
				var k int
				fmt.Sscanf(m[1], "b%d", &k)
				bits[s+k] = true
			}
		}
	}
	nbytes := len(q.Order) / 8
	w := map[string]string{"kind": fmt.Sprint(q.Kind), "n": fmt.Sprint(q.PayloadLen)}
	for b := 0; b < nbytes; b++ {
		v := 0
		for k := 0; k < 8; k++ {
			if bits[b*8+k] {
				v |= 1 << uint(k)
			}
		}
		if v != 0 {
			w[fmt.Sprintf("e[%d]", b)] = fmt.Sprint(v)
		}
	}
	if q.Cross {
		// an input accepted through the first path such that the corrupted input is accepted through the second
		e := new(big.Int)
		for p, idx := range q.Order {
			if bits[p] {
				e.SetBit(e, idx, 1)
			}
		}
		x, ok := crossInput(q.Ei, q.Ej, len(q.Order), e)
		if !ok {
			w["no_input"] = "1"
			return w
		}
		for b := 0; b < nbytes; b++ {
			v := 0
			for k := 0; k < 8; k++ {
				if x.Bit(q.Order[b*8+k]) == 1 {
					v |= 1 << uint(k)
				}
			}
			w[fmt.Sprintf("x[%d]", b)] = fmt.Sprint(v)
		}
	}
	return w
}
