package main

import (
	"strings"

	"golang.org/x/tools/go/ssa"
)

func registerExtra(e *Engine) {
	I := e.intrinsics
	registerCompress(e)
	registerContext(e)
	registerBigInt(e)
	registerCrc32(e)
	// package-level variables of packages whose init is not executed
	e.globalInit["net.v4InV6Prefix"] = func(x *Exec, c *Cell) {
		bs := make([]*Term, 12)
		for i := range bs {
			bs[i] = x.ctx.BV(0, 8)
		}
		bs[10], bs[11] = x.ctx.BV(0xff, 8), x.ctx.BV(0xff, 8)
		c.V = x.bytesToSlice(bs, "net.v4InV6Prefix")
	}
	// strings functions on concrete arguments
	str2bool := func(f func(a, b string) bool) Intrinsic {
		return func(x *Exec, caller *frame, fn *ssa.Function, args []Value) Value {
			return x.ctx.Bool(f(x.concreteStr(args[0], "string arg of "+fn.String()), x.concreteStr(args[1], "string arg of "+fn.String())))
		}
	}
	I["strings.Contains"] = str2bool(strings.Contains)
	I["strings.HasPrefix"] = str2bool(strings.HasPrefix)
	I["strings.HasSuffix"] = str2bool(strings.HasSuffix)
	// strings.EqualFold on byte-list strings: exact for ASCII content (letters A-Z fold to a-z, every other byte
	// compares as is, strings of different length differ); a path on which some byte can be >= 0x80 is split off and
	// ended as unsupported (Unicode case folding is not modelled), so the ASCII verdict is never extended to it
	I["strings.EqualFold"] = func(x *Exec, caller *frame, fn *ssa.Function, args []Value) Value {
		a, aok := args[0].(*Str)
		b, bok := args[1].(*Str)
		if !aok || !bok {
			return x.ctx.Bool(strings.EqualFold(x.concreteStr(args[0], "string arg of strings.EqualFold"), x.concreteStr(args[1], "string arg of strings.EqualFold")))
		}
		conc := true
		for _, t := range append(append([]*Term{}, a.B...), b.B...) {
			if !t.IsConst() {
				conc = false
			}
		}
		if conc {
			return x.ctx.Bool(strings.EqualFold(x.concreteStr(args[0], "strings.EqualFold"), x.concreteStr(args[1], "strings.EqualFold")))
		}
		ascii := x.ctx.True
		for _, t := range append(append([]*Term{}, a.B...), b.B...) {
			ascii = x.ctx.BAnd(ascii, x.ctx.ULt(t, x.ctx.BV(0x80, 8)))
		}
		if !x.branch(ascii) {
			panic(x.unsupported("strings.EqualFold on a string with non-ASCII bytes (Unicode case folding is not modelled)"))
		}
		if len(a.B) != len(b.B) {
			return x.ctx.False
		}
		lower := func(t *Term) *Term {
			isUpper := x.ctx.BAnd(x.ctx.Not(x.ctx.ULt(t, x.ctx.BV('A', 8))), x.ctx.ULt(t, x.ctx.BV('Z'+1, 8)))
			return x.ctx.Ite(isUpper, x.ctx.Or(t, x.ctx.BV(0x20, 8)), t)
		}
		r := x.ctx.True
		for i := range a.B {
			r = x.ctx.BAnd(r, x.ctx.Eq(lower(a.B[i]), lower(b.B[i])))
		}
		return r
	}
	str2str := func(f func(a string) string) Intrinsic {
		return func(x *Exec, caller *frame, fn *ssa.Function, args []Value) Value {
			return x.strConst(f(x.concreteStr(args[0], "string arg of "+fn.String())))
		}
	}
	I["strings.ToLower"] = str2str(strings.ToLower)
	I["strings.ToUpper"] = str2str(strings.ToUpper)
	I["strings.TrimSpace"] = str2str(strings.TrimSpace)
	I["strings.Index"] = func(x *Exec, caller *frame, fn *ssa.Function, args []Value) Value {
		return x.intTerm(strings.Index(x.concreteStr(args[0], "strings.Index"), x.concreteStr(args[1], "strings.Index")))
	}
}
