package main

func registerExtra(e *Engine) {
}
