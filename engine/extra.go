package main

import (
	"strings"

	"golang.org/x/tools/go/ssa"
)

func registerExtra(e *Engine) {
	I := e.intrinsics
	registerCompress(e)
	registerContext(e)
	registerBigInt(e)
	registerCrc32(e)
	// package-level variables of packages whose init is not executed
	e.globalInit["net.v4InV6Prefix"] = func(x *Exec, c *Cell) {
		bs := make([]*Term, 12)
		for i := range bs {
			bs[i] = x.ctx.BV(0, 8)
		}
		bs[10], bs[11] = x.ctx.BV(0xff, 8), x.ctx.BV(0xff, 8)
		c.V = x.bytesToSlice(bs, "net.v4InV6Prefix")
	}
	// strings functions on concrete arguments
	str2bool := func(f func(a, b string) bool) Intrinsic {
		return func(x *Exec, caller *frame, fn *ssa.Function, args []Value) Value {
			return x.ctx.Bool(f(x.concreteStr(args[0], "string arg of "+fn.String()), x.concreteStr(args[1], "string arg of "+fn.String())))
		}
	}
	I["strings.Contains"] = str2bool(strings.Contains)
	I["strings.HasPrefix"] = str2bool(strings.HasPrefix)
	I["strings.HasSuffix"] = str2bool(strings.HasSuffix)
	I["strings.EqualFold"] = str2bool(strings.EqualFold)
	str2str := func(f func(a string) string) Intrinsic {
		return func(x *Exec, caller *frame, fn *ssa.Function, args []Value) Value {
			return x.strConst(f(x.concreteStr(args[0], "string arg of "+fn.String())))
		}
	}
	I["strings.ToLower"] = str2str(strings.ToLower)
	I["strings.ToUpper"] = str2str(strings.ToUpper)
	I["strings.TrimSpace"] = str2str(strings.TrimSpace)
	I["strings.Index"] = func(x *Exec, caller *frame, fn *ssa.Function, args []Value) Value {
		return x.intTerm(strings.Index(x.concreteStr(args[0], "strings.Index"), x.concreteStr(args[1], "strings.Index")))
	}
}
