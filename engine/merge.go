package main

import (
	"go/types"
	"strings"

	"golang.org/x/tools/go/ssa"
)

// State merging for pure scalar functions (DESIGN 2.5 "summarise pure callees"): a call to a function whose
// parameters are scalars/strings and whose results are booleans/integers is executed on all of its syntactic
// paths without forking the caller; the results are merged into an if-then-else term. If any path of the callee
// panics, hits something unsupported, or writes to memory that existed before the call, the merge is abandoned
// and the call is executed normally (forking).

type mergeAbort struct{ why string }

func scalarType(t types.Type, allowString bool) bool {
	b, ok := t.Underlying().(*types.Basic)
	if !ok {
		return false
	}
	if b.Info()&types.IsString != 0 {
		return allowString
	}
	return b.Info()&(types.IsBoolean|types.IsInteger) != 0
}

func (e *Engine) mergeable(fn *ssa.Function) bool {
	e.mu.RLock()
	v, found := e.mergeCache[fn]
	e.mu.RUnlock()
	if found {
		return v
	}
	ok := func() bool {
		if fn.Blocks == nil || len(fn.FreeVars) > 0 {
			return false
		}
		if fn.Pkg == nil || !e.initPkgs[fn.Pkg.Pkg.Path()] {
			return false
		}
		sig := fn.Signature
		if sig.Results().Len() == 0 || sig.Variadic() {
			return false
		}
		for i := 0; i < sig.Results().Len(); i++ {
			if !scalarType(sig.Results().At(i).Type(), false) {
				return false
			}
		}
		for _, p := range fn.Params {
			if !scalarType(p.Type(), true) {
				return false
			}
		}
		if strings.HasPrefix(fn.Name(), "Verif") || strings.HasPrefix(fn.Name(), "verif") || strings.HasPrefix(fn.Name(), "ref") {
			return false // harness and reference code is executed as written
		}
		return true
	}()
	e.mu.Lock()
	e.mergeCache[fn] = ok
	e.mu.Unlock()
	return ok
}

func allConcrete(args []Value) bool {
	for _, a := range args {
		switch v := a.(type) {
		case *Term:
			if !v.IsConst() {
				return false
			}
		case *Str:
			if _, ok := v.Concrete(); !ok {
				return false
			}
		}
	}
	return true
}

// callMerged returns (result, true) if the call was executed with state merging.
func (x *Exec) callMerged(fn *ssa.Function, args []Value, caller *frame) (res Value, ok bool) {
	if x.merging > 3 || allConcrete(args) {
		return nil, false
	}
	// save exploration state
	sDec, sPos, sTrace, sPC := x.decisions, x.pos, x.trace, x.pc
	sSteps, sDepth, sInstr := x.steps, x.depth, x.curInstr
	sAlloc := x.allocSeq
	sMergeBase := x.mergeBase
	x.mergeBase = x.allocSeq
	x.merging++
	defer func() {
		x.merging--
		x.mergeBase = sMergeBase
		x.decisions, x.pos, x.trace, x.pc = sDec, sPos, sTrace, sPC
		x.pcVars, x.pcVarsN = nil, 0
		x.depth, x.curInstr = sDepth, sInstr
		if r := recover(); r != nil {
			switch r.(type) {
			case mergeAbort, *goPanic, pathEnd:
				x.steps = sSteps
				x.allocSeq = sAlloc
				res, ok = nil, false
				x.res.MergeAborts++
				return
			}
			panic(r)
		}
	}()
	type outcome struct {
		cond *Term
		val  Value
	}
	var outs []outcome
	var prefix []choice
	nres := fn.Signature.Results().Len()
	for iter := 0; ; iter++ {
		if iter > 4096 {
			panic(mergeAbort{"too many paths"})
		}
		x.decisions, x.pos, x.trace = prefix, 0, nil
		x.pc = nil // collect only the callee's own conditions
		x.pcVars, x.pcVarsN = nil, 0
		v := x.callBody(fn, args, caller)
		outs = append(outs, outcome{x.ctx.AndAll(x.pc), v})
		tr := x.trace
		i := len(tr) - 1
		for i >= 0 && len(tr[i].Alts) == 0 {
			i--
		}
		if i < 0 {
			break
		}
		np := make([]choice, i+1)
		copy(np, tr[:i])
		np[i] = choice{Taken: tr[i].Alts[0], Alts: append([]int{}, tr[i].Alts[1:]...)}
		prefix = np
	}
	// merge
	mergeAt := func(k int) *Term {
		get := func(o outcome) *Term {
			if nres == 1 {
				return o.val.(*Term)
			}
			return o.val.(Tuple)[k].(*Term)
		}
		r := get(outs[len(outs)-1])
		for i := len(outs) - 2; i >= 0; i-- {
			r = x.ctx.Ite(outs[i].cond, get(outs[i]), r)
		}
		return r
	}
	x.res.Merges++
	if nres == 1 {
		return mergeAt(0), true
	}
	t := make(Tuple, nres)
	for k := range t {
		t[k] = mergeAt(k)
	}
	return t, true
}

// opaqueErrorCtor: the error constructors of datacodec/errors.go build messages with fmt and reflect; they are
// replaced by a fresh non-nil opaque error (DESIGN 2.4).
func (e *Engine) opaqueErrorCtor(fn *ssa.Function) bool {
	e.mu.RLock()
	v, found := e.errCtorCache[fn]
	e.mu.RUnlock()
	if found {
		return v
	}
	ok := false
	if fn.Pkg != nil && fn.Pkg.Pkg.Path() == repoModule+"/datacodec" && fn.Signature.Results().Len() == 1 &&
		types.TypeString(fn.Signature.Results().At(0).Type(), nil) == "error" && fn.Signature.Recv() == nil {
		p := e.prog.Fset.Position(fn.Pos())
		ok = strings.HasSuffix(p.Filename, "datacodec/errors.go")
	}
	e.mu.Lock()
	e.errCtorCache[fn] = ok
	e.mu.Unlock()
	return ok
}
