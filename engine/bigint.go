package main

// math/big.Int model (DESIGN 2.2): the struct {neg bool; abs nat} keeps its shape; abs holds one cell with the
// magnitude as a bigW-bit term. Claims are restricted to |v| < 2^128 (arithmetic is done in bigW+8 bits and a
// result that does not fit bigW bits ends the path as a bound violation, never as success).

import (
	"fmt"
	"go/types"

	"golang.org/x/tools/go/ssa"
)

const bigW = 144

func (x *Exec) bigCell(v Value) *Cell {
	c, ok := v.(*Cell)
	if !ok || c == nil {
		x.goPanicf("invalid memory address or nil pointer dereference (nil *big.Int)")
	}
	return c
}

// bigGet returns (neg Bool, magnitude bigW bits).
func (x *Exec) bigGet(c *Cell) (*Term, *Term) {
	st := c.V.(Struct)
	neg := st[0].V.(*Term)
	abs := st[1].V.(Slice)
	if len(abs.C) == 0 {
		return x.ctx.False, x.ctx.SBV(0, bigW)
	}
	m, ok := abs.C[0].V.(*Term)
	if !ok || m.W != bigW {
		panic(x.unsupported("big.Int whose magnitude was not produced by the engine's model"))
	}
	return neg, m
}

func (x *Exec) bigSet(c *Cell, neg, mag *Term) {
	zero := x.ctx.Eq(mag, x.ctx.SBV(0, bigW))
	neg = x.ctx.BAnd(neg, x.ctx.Not(zero))
	st := c.V.(Struct)
	x.store(&st[0], neg)
	a := x.newAlloc("math/big", "nat")
	x.store(&st[1], Slice{C: []Cell{{V: mag, A: a}}})
}

// signed value in bigW+8 bits
func (x *Exec) bigSigned(c *Cell) *Term {
	neg, mag := x.bigGet(c)
	m := x.ctx.ZExt(mag, 8)
	return x.ctx.Ite(neg, x.ctx.Neg(m), m)
}

func (x *Exec) bigFromSigned(c *Cell, s *Term) {
	w := s.W
	neg := x.ctx.SLt(s, x.ctx.SBV(0, w))
	m := x.ctx.Ite(neg, x.ctx.Neg(s), s)
	// must fit bigW bits
	fits := x.ctx.Eq(x.ctx.Extract(m, w-1, bigW), x.ctx.SBV(0, w-bigW))
	if !fits.IsTrue() {
		if !x.branch(fits) {
			panic(pathEnd{Kind: "bound", Msg: fmt.Sprintf("big.Int magnitude exceeds the modelled %d bits", bigW), Site: x.site()})
		}
	}
	x.bigSet(c, neg, x.ctx.Extract(m, bigW-1, 0))
}

func (x *Exec) newBig(site string) *Cell {
	p := x.eng.ssaPkgs["math/big"]
	if p == nil {
		panic(x.unsupported("math/big not loaded"))
	}
	return x.newCell(p.Type("Int").Type(), site)
}

func registerBigInt(e *Engine) {
	I := e.intrinsics
	I["math/big.NewInt"] = func(x *Exec, caller *frame, fn *ssa.Function, args []Value) Value {
		c := x.newBig("big.NewInt")
		x.bigFromSigned(c, x.ctx.SExt(args[0].(*Term), bigW+8-64))
		return c
	}
	I["(*math/big.Int).SetInt64"] = func(x *Exec, caller *frame, fn *ssa.Function, args []Value) Value {
		c := x.bigCell(args[0])
		x.bigFromSigned(c, x.ctx.SExt(args[1].(*Term), bigW+8-64))
		return c
	}
	I["(*math/big.Int).SetUint64"] = func(x *Exec, caller *frame, fn *ssa.Function, args []Value) Value {
		c := x.bigCell(args[0])
		x.bigSet(c, x.ctx.False, x.ctx.ZExt(args[1].(*Term), bigW-64))
		return c
	}
	I["(*math/big.Int).Set"] = func(x *Exec, caller *frame, fn *ssa.Function, args []Value) Value {
		c := x.bigCell(args[0])
		neg, mag := x.bigGet(x.bigCell(args[1]))
		x.bigSet(c, neg, mag)
		return c
	}
	I["(*math/big.Int).Neg"] = func(x *Exec, caller *frame, fn *ssa.Function, args []Value) Value {
		c := x.bigCell(args[0])
		neg, mag := x.bigGet(x.bigCell(args[1]))
		x.bigSet(c, x.ctx.Not(neg), mag)
		return c
	}
	I["(*math/big.Int).Sign"] = func(x *Exec, caller *frame, fn *ssa.Function, args []Value) Value {
		neg, mag := x.bigGet(x.bigCell(args[0]))
		zero := x.ctx.Eq(mag, x.ctx.SBV(0, bigW))
		return x.ctx.Ite(zero, x.ctx.BV(0, 64), x.ctx.Ite(neg, x.ctx.SBV(-1, 64), x.ctx.BV(1, 64)))
	}
	I["(*math/big.Int).SetBytes"] = func(x *Exec, caller *frame, fn *ssa.Function, args []Value) Value {
		c := x.bigCell(args[0])
		buf := args[1].(Slice)
		if buf.Lazy != nil || len(buf.C)*8 > bigW {
			panic(pathEnd{Kind: "bound", Msg: fmt.Sprintf("big.Int.SetBytes with more than %d bytes", bigW/8), Site: x.site()})
		}
		mag := x.ctx.SBV(0, bigW)
		if len(buf.C) > 0 {
			var t *Term
			for _, b := range buf.C {
				if t == nil {
					t = b.V.(*Term)
				} else {
					t = x.ctx.Concat(t, b.V.(*Term))
				}
			}
			mag = x.ctx.ZExt(t, bigW-t.W)
		}
		x.bigSet(c, x.ctx.False, mag)
		return c
	}
	I["(*math/big.Int).Bytes"] = func(x *Exec, caller *frame, fn *ssa.Function, args []Value) Value {
		_, mag := x.bigGet(x.bigCell(args[0]))
		// minimal big-endian magnitude: fork over the byte length
		n := x.byteLen(mag)
		if n == 0 {
			return Slice{C: []Cell{}}
		}
		bs := make([]*Term, n)
		for i := 0; i < n; i++ {
			k := n - 1 - i
			bs[i] = x.ctx.Extract(mag, 8*k+7, 8*k)
		}
		return x.bytesToSlice(bs, "big.Int.Bytes")
	}
	I["(*math/big.Int).BitLen"] = func(x *Exec, caller *frame, fn *ssa.Function, args []Value) Value {
		_, mag := x.bigGet(x.bigCell(args[0]))
		res := x.ctx.BV(0, 64)
		for i := 0; i < bigW; i++ {
			bit := x.ctx.Eq(x.ctx.Extract(mag, i, i), x.ctx.BV(1, 1))
			res = x.ctx.Ite(bit, x.ctx.BV(uint64(i+1), 64), res)
		}
		return res
	}
	arith := func(op string) Intrinsic {
		return func(x *Exec, caller *frame, fn *ssa.Function, args []Value) Value {
			c := x.bigCell(args[0])
			a := x.bigSigned(x.bigCell(args[1]))
			b := x.bigSigned(x.bigCell(args[2]))
			// one more bit of headroom for the carry
			a, b = x.ctx.SExt(a, 1), x.ctx.SExt(b, 1)
			var r *Term
			if op == "add" {
				r = x.ctx.Add(a, b)
			} else {
				r = x.ctx.Sub(a, b)
			}
			x.bigFromSigned(c, r)
			return c
		}
	}
	I["(*math/big.Int).Add"] = arith("add")
	I["(*math/big.Int).Sub"] = arith("sub")
	I["(*math/big.Int).Lsh"] = func(x *Exec, caller *frame, fn *ssa.Function, args []Value) Value {
		c := x.bigCell(args[0])
		neg, mag := x.bigGet(x.bigCell(args[1]))
		n := args[2].(*Term)
		if mag.IsConst() {
			// constant magnitude (the code shifts the constant 1): no double-width shift needed
			bl := mag.BigVal().BitLen()
			if bl == 0 {
				x.bigSet(c, neg, mag)
				return c
			}
			fits := x.ctx.ULe(n, x.ctx.BV(uint64(bigW-bl), n.W))
			if !fits.IsTrue() {
				if !x.branch(fits) {
					panic(pathEnd{Kind: "bound", Msg: fmt.Sprintf("big.Int.Lsh result exceeds the modelled %d bits", bigW), Site: x.site()})
				}
			}
			x.bigSet(c, neg, x.ctx.Shl(mag, x.ctx.Resize(n, bigW, false)))
			return c
		}
		// result must fit: mag < 2^(bigW-n)
		wide := x.ctx.ZExt(mag, bigW) // 2*bigW bits
		sh := x.ctx.Shl(wide, x.ctx.Resize(n, 2*bigW, false))
		big := x.ctx.ULe(x.ctx.BV(uint64(bigW), n.W), n)
		hiZero := x.ctx.Eq(x.ctx.Extract(sh, 2*bigW-1, bigW), x.ctx.SBV(0, bigW))
		fits := x.ctx.BOr(x.ctx.Eq(mag, x.ctx.SBV(0, bigW)), x.ctx.BAnd(x.ctx.Not(big), hiZero))
		if !fits.IsTrue() {
			if !x.branch(fits) {
				panic(pathEnd{Kind: "bound", Msg: fmt.Sprintf("big.Int.Lsh result exceeds the modelled %d bits", bigW), Site: x.site()})
			}
		}
		x.bigSet(c, neg, x.ctx.Extract(sh, bigW-1, 0))
		return c
	}
	I["(*math/big.Int).Cmp"] = func(x *Exec, caller *frame, fn *ssa.Function, args []Value) Value {
		a := x.bigSigned(x.bigCell(args[0]))
		b := x.bigSigned(x.bigCell(args[1]))
		return x.ctx.Ite(x.ctx.SLt(a, b), x.ctx.SBV(-1, 64), x.ctx.Ite(x.ctx.Eq(a, b), x.ctx.BV(0, 64), x.ctx.BV(1, 64)))
	}
	I["(*math/big.Int).IsInt64"] = func(x *Exec, caller *frame, fn *ssa.Function, args []Value) Value {
		s := x.bigSigned(x.bigCell(args[0]))
		lo := x.ctx.SExt(x.ctx.BV(uint64(1)<<63, 64), s.W-64)
		hi := x.ctx.ZExt(x.ctx.BV(uint64(1)<<63-1, 64), s.W-64)
		return x.ctx.BAnd(x.ctx.SLe(lo, s), x.ctx.SLe(s, hi))
	}
	I["(*math/big.Int).IsUint64"] = func(x *Exec, caller *frame, fn *ssa.Function, args []Value) Value {
		neg, mag := x.bigGet(x.bigCell(args[0]))
		return x.ctx.BAnd(x.ctx.Not(neg), x.ctx.Eq(x.ctx.Extract(mag, bigW-1, 64), x.ctx.SBV(0, bigW-64)))
	}
	I["(*math/big.Int).Int64"] = func(x *Exec, caller *frame, fn *ssa.Function, args []Value) Value {
		// low 64 bits of the magnitude, negated if negative (what the real implementation does)
		neg, mag := x.bigGet(x.bigCell(args[0]))
		lo := x.ctx.Extract(mag, 63, 0)
		return x.ctx.Ite(neg, x.ctx.Neg(lo), lo)
	}
	I["(*math/big.Int).Uint64"] = func(x *Exec, caller *frame, fn *ssa.Function, args []Value) Value {
		_, mag := x.bigGet(x.bigCell(args[0]))
		return x.ctx.Extract(mag, 63, 0)
	}
	opaqueStr := func(x *Exec, caller *frame, fn *ssa.Function, args []Value) Value { return x.strConst("‹big›") }
	I["(*math/big.Int).Text"] = opaqueStr
	I["(*math/big.Int).String"] = opaqueStr
	I["(*math/big.Int).SetString"] = func(x *Exec, caller *frame, fn *ssa.Function, args []Value) Value {
		panic(x.unsupported("big.Int.SetString (string parsing is outside the numeric claims)"))
	}
	_ = types.Typ
}

// byteLen forks over the minimal number of bytes needed for magnitude mag.
func (x *Exec) byteLen(mag *Term) int {
	if mag.IsConst() {
		return (mag.BigVal().BitLen() + 7) / 8
	}
	max := bigW / 8
	cond := func(n int) *Term {
		// mag < 2^(8n) and (n == 0 or mag >= 2^(8(n-1)))
		var hiZero *Term = x.ctx.True
		if 8*n < bigW {
			hiZero = x.ctx.Eq(x.ctx.Extract(mag, bigW-1, 8*n), x.ctx.SBV(0, bigW-8*n))
		}
		if n == 0 {
			return hiZero
		}
		top := x.ctx.Not(x.ctx.Eq(x.ctx.Extract(mag, 8*n-1, 8*(n-1)), x.ctx.BV(0, 8)))
		return x.ctx.BAnd(hiZero, top)
	}
	taken := x.choose(func() []int {
		var o []int
		for n := 0; n <= max; n++ {
			if x.feasible(cond(n)) {
				o = append(o, n)
			}
		}
		return o
	})
	x.pc = append(x.pc, cond(taken))
	return taken
}
