package main

import (
	"fmt"
	"go/types"
	"math/big"
	"strings"

	"golang.org/x/tools/go/ssa"
)

func (x *Exec) resultZero(fn *ssa.Function) Value {
	res := fn.Signature.Results()
	switch res.Len() {
	case 0:
		return nil
	case 1:
		return x.zero(res.At(0).Type(), nil)
	}
	return x.zero(res, nil)
}

func (x *Exec) newErr(msg string, wrap Value) Iface {
	x.errSeq++
	return Iface{T: x.eng.errStringPtr, V: &ErrObj{Msg: msg, Wrap: wrap, ID: x.errSeq}}
}

func (x *Exec) globalByName(pkg, name string) *Cell {
	p := x.eng.ssaPkgs[pkg]
	if p == nil {
		panic(x.unsupported("no package " + pkg))
	}
	g, ok := p.Members[name].(*ssa.Global)
	if !ok {
		panic(x.unsupported("no global " + pkg + "." + name))
	}
	return x.global(g)
}

func (x *Exec) ioErr(name string) Value {
	return x.load(x.globalByName("io", name))
}

func (x *Exec) intTerm(v int) *Term { return x.ctx.SBV(int64(v), 64) }

func (x *Exec) concreteInt(v Value, what string) int {
	t := v.(*Term)
	if !t.IsConst() {
		panic(x.unsupported("symbolic " + what))
	}
	return int(t.SVal())
}

func (x *Exec) concreteStr(v Value, what string) string {
	s, ok := v.(*Str).Concrete()
	if !ok {
		panic(x.unsupported("symbolic " + what))
	}
	return s
}

// ---- bytes.Buffer / bytes.Reader field access ----

func (x *Exec) bufFields(recv Value) (buf *Cell, off *Cell) {
	c := x.deref(recv)
	s := c.V.(Struct)
	return &s[0], &s[1]
}

func (x *Exec) bufUnread(recv Value) []Cell {
	b, o := x.bufFields(recv)
	sl := b.V.(Slice)
	off := int(o.V.(*Term).Val)
	return sl.C[off:]
}

func (x *Exec) bufAppend(recv Value, bs []*Term) {
	b, _ := x.bufFields(recv)
	sl := b.V.(Slice)
	a := x.newAlloc("bytes.Buffer", "bufgrow")
	n := make([]Cell, len(sl.C), len(sl.C)+len(bs))
	copy(n, sl.C)
	for _, t := range bs {
		n = append(n, Cell{V: t, A: a})
	}
	x.store(b, Slice{C: n})
}

func (x *Exec) bufConsume(recv Value, n int) []*Term {
	b, o := x.bufFields(recv)
	sl := b.V.(Slice)
	off := int(o.V.(*Term).Val)
	out := make([]*Term, n)
	for i := 0; i < n; i++ {
		out[i] = sl.C[off+i].V.(*Term)
	}
	off += n
	if off == len(sl.C) {
		// Buffer resets when drained
		x.store(b, Slice{C: sl.C[:0]})
		off = 0
	}
	x.store(o, x.intTerm(off))
	return out
}

func (x *Exec) rdrFields(recv Value) (s *Cell, i *Cell) {
	c := x.deref(recv)
	st := c.V.(Struct)
	return &st[0], &st[1]
}

// readerRemaining reports how many bytes r can still deliver, if known.
func (x *Exec) readerRemaining(r Iface) (int, bool) {
	if r.T == nil {
		return 0, false
	}
	switch r.T.String() {
	case "*bytes.Buffer":
		return len(x.bufUnread(r.V)), true
	case "*bytes.Reader":
		s, i := x.rdrFields(r.V)
		n := len(s.V.(Slice).C) - int(i.V.(*Term).SVal())
		if n < 0 {
			n = 0
		}
		return n, true
	case "*io.LimitedReader":
		c := x.deref(r.V)
		st := c.V.(Struct)
		inner, ok := x.readerRemaining(st[0].V.(Iface))
		if !ok {
			return 0, false
		}
		nT := st[1].V.(*Term)
		if !nT.IsConst() {
			return inner, true // upper bound
		}
		if n := int(nT.SVal()); n < inner {
			if n < 0 {
				n = 0
			}
			return n, true
		}
		return inner, true
	}
	return 0, false
}

// readInto reads up to len(dst) bytes via r.Read semantics for the intrinsic readers; generic readers are invoked.
// Returns number read and error value (Iface).
func (x *Exec) readCall(r Iface, dst Slice, caller *frame) (int, Value) {
	res := x.invoke(r, "Read", caller, dst).(Tuple)
	n := x.concreteInt(res[0], "Read count")
	return n, res[1]
}

func isNilIface(v Value) bool {
	i, ok := v.(Iface)
	return ok && i.T == nil
}

// readFull implements io.ReadFull / ReadAtLeast(min=len) on a concrete-length destination.
func (x *Exec) readFull(r Iface, dst Slice, min int, caller *frame) (int, Value) {
	if len(dst.C) < min {
		return 0, x.ioErr("ErrShortBuffer")
	}
	n := 0
	var err Value = Iface{}
	for n < min && isNilIface(err) {
		var nn int
		nn, err = x.readCall(r, Slice{C: dst.C[n:]}, caller)
		n += nn
	}
	if n >= min {
		err = Iface{}
	} else if n > 0 && x.valEq(err, x.ioErr("EOF")).IsTrue() {
		err = x.ioErr("ErrUnexpectedEOF")
	}
	return n, err
}

func registerIntrinsics(e *Engine) {
	I := e.intrinsics
	zeroRes := func(x *Exec, caller *frame, fn *ssa.Function, args []Value) Value { return x.resultZero(fn) }

	// ----- logging and formatting -----
	e.pkgStubs["github.com/rs/zerolog"] = zeroRes
	e.pkgStubs["github.com/rs/zerolog/log"] = zeroRes
	// reflection is not modelled (DESIGN 2.4): calls fail closed
	e.pkgStubs["reflect"] = func(x *Exec, caller *frame, fn *ssa.Function, args []Value) Value {
		panic(x.unsupported("reflect." + fn.Name() + " (reflection is not modelled)"))
	}
	I["fmt.Sprintf"] = func(x *Exec, caller *frame, fn *ssa.Function, args []Value) Value {
		return x.fmtString(args[0].(*Str), args[1].(Slice))
	}
	I["fmt.Sprint"] = func(x *Exec, caller *frame, fn *ssa.Function, args []Value) Value {
		return x.strConst("‹fmt›")
	}
	I["fmt.Sprintln"] = I["fmt.Sprint"]
	for _, n := range []string{"fmt.Printf", "fmt.Println", "fmt.Print", "fmt.Fprintf", "fmt.Fprintln", "fmt.Fprint"} {
		I[n] = zeroRes
	}
	I["fmt.Errorf"] = func(x *Exec, caller *frame, fn *ssa.Function, args []Value) Value {
		f, _ := args[0].(*Str).Concrete()
		var wrap Value
		if strings.Contains(f, "%w") {
			for _, c := range args[1].(Slice).C {
				if iv, ok := c.V.(Iface); ok && iv.T != nil {
					if types.Implements(iv.T, errorIface()) {
						wrap = iv
					}
				}
			}
		}
		return x.newErr(f, wrap)
	}
	I["errors.New"] = func(x *Exec, caller *frame, fn *ssa.Function, args []Value) Value {
		s, _ := args[0].(*Str).Concrete()
		return x.newErr(s, nil)
	}
	I["(*errors.errorString).Error"] = func(x *Exec, caller *frame, fn *ssa.Function, args []Value) Value {
		if eo, ok := args[0].(*ErrObj); ok {
			return x.strConst(eo.Msg)
		}
		c := x.deref(args[0])
		return c.V.(Struct)[0].V
	}
	I["errors.Unwrap"] = func(x *Exec, caller *frame, fn *ssa.Function, args []Value) Value {
		iv := args[0].(Iface)
		if eo, ok := iv.V.(*ErrObj); ok && eo.Wrap != nil {
			return eo.Wrap
		}
		return Iface{}
	}
	I["errors.Is"] = func(x *Exec, caller *frame, fn *ssa.Function, args []Value) Value {
		cur := args[0].(Iface)
		target := args[1].(Iface)
		for cur.T != nil {
			if x.valEq(cur, target).IsTrue() {
				return x.ctx.True
			}
			eo, ok := cur.V.(*ErrObj)
			if !ok || eo.Wrap == nil {
				break
			}
			cur = eo.Wrap.(Iface)
		}
		return x.ctx.False
	}
	I["errors.As"] = func(x *Exec, caller *frame, fn *ssa.Function, args []Value) Value {
		return x.ctx.False
	}

	// ----- sync -----
	for _, n := range []string{"(*sync.Mutex).Lock", "(*sync.Mutex).Unlock", "(*sync.RWMutex).Lock", "(*sync.RWMutex).Unlock",
		"(*sync.RWMutex).RLock", "(*sync.RWMutex).RUnlock", "(*sync.WaitGroup).Add", "(*sync.WaitGroup).Done", "(*sync.WaitGroup).Wait",
		"runtime.Gosched", "runtime.KeepAlive"} {
		I[n] = zeroRes
	}
	// sync.Pool: Get always builds a new object with New (a hand-over through the pool is synchronised, so reuse is
	// not a shared write); Put records the memory as released, see the use-after-release rule at Return
	I["(*sync.Pool).Get"] = func(x *Exec, caller *frame, fn *ssa.Function, args []Value) Value {
		st, ok := x.deref(args[0]).V.(Struct)
		if !ok {
			panic(x.unsupported("sync.Pool representation"))
		}
		pt := fn.Signature.Recv().Type().(*types.Pointer).Elem().Underlying().(*types.Struct)
		for i := 0; i < pt.NumFields(); i++ {
			if pt.Field(i).Name() == "New" {
				if newFn := st[i].V; newFn != nil {
					if cl, isCl := newFn.(*Closure); !isCl || cl != nil {
						if f, isFn := newFn.(*ssa.Function); !isFn || f != nil {
							return x.callValue(newFn, nil, caller)
						}
					}
				}
			}
		}
		return Iface{}
	}
	I["(*sync.Pool).Put"] = func(x *Exec, caller *frame, fn *ssa.Function, args []Value) Value {
		if x.trackWrite {
			if x.released == nil {
				x.released = map[interface{}]bool{}
			}
			x.collectMutable(args[1], x.released, map[interface{}]bool{})
		}
		return nil
	}
	I["(*sync.Mutex).TryLock"] = func(x *Exec, caller *frame, fn *ssa.Function, args []Value) Value { return x.ctx.True }
	atomicLoad := func(x *Exec, caller *frame, fn *ssa.Function, args []Value) Value { return x.load(x.deref(args[0])) }
	atomicStore := func(x *Exec, caller *frame, fn *ssa.Function, args []Value) Value {
		x.store(x.deref(args[0]), args[1])
		return nil
	}
	atomicAdd := func(x *Exec, caller *frame, fn *ssa.Function, args []Value) Value {
		c := x.deref(args[0])
		n := x.ctx.Add(c.V.(*Term), args[1].(*Term))
		x.store(c, n)
		return n
	}
	atomicCAS := func(x *Exec, caller *frame, fn *ssa.Function, args []Value) Value {
		c := x.deref(args[0])
		eq := x.valEq(c.V, args[1])
		if x.branch(eq) {
			x.store(c, args[2])
			return x.ctx.True
		}
		return x.ctx.False
	}
	atomicSwap := func(x *Exec, caller *frame, fn *ssa.Function, args []Value) Value {
		c := x.deref(args[0])
		old := x.load(c)
		x.store(c, args[1])
		return old
	}
	for _, t := range []string{"Int32", "Int64", "Uint32", "Uint64", "Uintptr", "Pointer"} {
		I["sync/atomic.Load"+t] = atomicLoad
		I["sync/atomic.Store"+t] = atomicStore
		I["sync/atomic.CompareAndSwap"+t] = atomicCAS
		I["sync/atomic.Swap"+t] = atomicSwap
		if t != "Pointer" {
			I["sync/atomic.Add"+t] = atomicAdd
		}
	}

	// ----- math -----
	ident := func(x *Exec, caller *frame, fn *ssa.Function, args []Value) Value { return args[0] }
	I["math.Float32bits"] = ident
	I["math.Float32frombits"] = ident
	I["math.Float64bits"] = ident
	I["math.Float64frombits"] = ident
	// contract stub: "SetFloat64 panics with ErrNaN if x is a NaN"; the value itself is not modelled
	I["(*math/big.Float).SetFloat64"] = func(x *Exec, caller *frame, fn *ssa.Function, args []Value) Value {
		x.mustHold(x.ctx.Not(x.fpIsNaN(args[1].(*Term))), "Float.SetFloat64(NaN)")
		return args[0]
	}
	I["math.IsNaN"] = func(x *Exec, caller *frame, fn *ssa.Function, args []Value) Value {
		return x.fpIsNaN(args[0].(*Term))
	}
	clz := func(w int) Intrinsic {
		return func(x *Exec, caller *frame, fn *ssa.Function, args []Value) Value {
			t := args[0].(*Term)
			res := x.ctx.BV(uint64(w), 64)
			for i := 0; i < w; i++ { // bit i set and all above clear => clz = w-1-i ; build from low to high
				bit := x.ctx.Eq(x.ctx.Extract(t, i, i), x.ctx.BV(1, 1))
				res = x.ctx.Ite(bit, x.ctx.BV(uint64(w-1-i), 64), res)
			}
			return res
		}
	}
	I["math/bits.LeadingZeros64"] = clz(64)
	I["math/bits.LeadingZeros32"] = clz(32)
	I["math/bits.LeadingZeros16"] = clz(16)
	I["math/bits.LeadingZeros8"] = clz(8)
	blen := func(w int) Intrinsic {
		return func(x *Exec, caller *frame, fn *ssa.Function, args []Value) Value {
			return x.ctx.Sub(x.ctx.BV(uint64(w), 64), clz(w)(x, caller, fn, args).(*Term))
		}
	}
	I["math/bits.Len64"] = blen(64)
	I["math/bits.Len32"] = blen(32)
	I["math/bits.Len"] = blen(64)

	// ----- bytes.Buffer -----
	I["(*bytes.Buffer).Write"] = func(x *Exec, caller *frame, fn *ssa.Function, args []Value) Value {
		p := args[1].(Slice)
		if p.Lazy != nil {
			p = x.lazyForce(p)
		}
		x.bufAppend(args[0], sliceBytes(p))
		return Tuple{x.intTerm(len(p.C)), Iface{}}
	}
	I["(*bytes.Buffer).WriteString"] = func(x *Exec, caller *frame, fn *ssa.Function, args []Value) Value {
		s := args[1].(*Str)
		x.bufAppend(args[0], s.B)
		return Tuple{x.intTerm(len(s.B)), Iface{}}
	}
	I["(*bytes.Buffer).WriteByte"] = func(x *Exec, caller *frame, fn *ssa.Function, args []Value) Value {
		x.bufAppend(args[0], []*Term{args[1].(*Term)})
		return Iface{}
	}
	I["(*bytes.Buffer).Len"] = func(x *Exec, caller *frame, fn *ssa.Function, args []Value) Value {
		return x.intTerm(len(x.bufUnread(args[0])))
	}
	I["(*bytes.Buffer).Cap"] = func(x *Exec, caller *frame, fn *ssa.Function, args []Value) Value {
		b, _ := x.bufFields(args[0])
		return x.intTerm(cap(b.V.(Slice).C))
	}
	I["(*bytes.Buffer).Grow"] = func(x *Exec, caller *frame, fn *ssa.Function, args []Value) Value {
		n := args[1].(*Term)
		x.mustHold(x.ctx.SLe(x.ctx.BV(0, 64), n), "bytes.Buffer.Grow: negative count")
		return nil
	}
	I["(*bytes.Buffer).Bytes"] = func(x *Exec, caller *frame, fn *ssa.Function, args []Value) Value {
		return Slice{C: x.bufUnread(args[0])}
	}
	I["(*bytes.Buffer).String"] = func(x *Exec, caller *frame, fn *ssa.Function, args []Value) Value {
		if p, ok := args[0].(*Cell); ok && p == nil {
			return x.strConst("<nil>")
		}
		return &Str{B: sliceBytes(Slice{C: x.bufUnread(args[0])})}
	}
	I["(*bytes.Buffer).Reset"] = func(x *Exec, caller *frame, fn *ssa.Function, args []Value) Value {
		b, o := x.bufFields(args[0])
		x.store(b, Slice{C: b.V.(Slice).C[:0]})
		x.store(o, x.intTerm(0))
		return nil
	}
	I["(*bytes.Buffer).Read"] = func(x *Exec, caller *frame, fn *ssa.Function, args []Value) Value {
		p := args[1].(Slice)
		un := x.bufUnread(args[0])
		if len(un) == 0 {
			if len(p.C) == 0 && p.Lazy == nil {
				return Tuple{x.intTerm(0), Iface{}}
			}
			return Tuple{x.intTerm(0), x.ioErr("EOF")}
		}
		n := len(p.C)
		if len(un) < n {
			n = len(un)
		}
		bs := x.bufConsume(args[0], n)
		for i := 0; i < n; i++ {
			x.store(&p.C[i], bs[i])
		}
		return Tuple{x.intTerm(n), Iface{}}
	}
	I["(*bytes.Buffer).ReadByte"] = func(x *Exec, caller *frame, fn *ssa.Function, args []Value) Value {
		if len(x.bufUnread(args[0])) == 0 {
			return Tuple{x.ctx.BV(0, 8), x.ioErr("EOF")}
		}
		return Tuple{x.bufConsume(args[0], 1)[0], Iface{}}
	}
	I["(*bytes.Buffer).Next"] = func(x *Exec, caller *frame, fn *ssa.Function, args []Value) Value {
		n := x.concreteInt(args[1], "Buffer.Next count")
		un := x.bufUnread(args[0])
		if n > len(un) {
			n = len(un)
		}
		res := Slice{C: un[:n]}
		_, o := x.bufFields(args[0])
		x.store(o, x.intTerm(int(o.V.(*Term).Val)+n))
		return res
	}
	I["(*bytes.Buffer).ReadFrom"] = func(x *Exec, caller *frame, fn *ssa.Function, args []Value) Value {
		r := args[1].(Iface)
		total := 0
		for {
			rem, ok := x.readerRemaining(r)
			if !ok {
				rem = 512
			}
			if rem == 0 {
				rem = 1
			}
			tmp := x.makeSlice(types.Typ[types.Uint8], rem, rem, "ReadFrom")
			n, err := x.readCall(r, tmp, caller)
			x.bufAppend(args[0], sliceBytes(Slice{C: tmp.C[:n]}))
			total += n
			if !isNilIface(err) {
				if x.valEq(err, x.ioErr("EOF")).IsTrue() {
					return Tuple{x.intTerm(total), Iface{}}
				}
				return Tuple{x.intTerm(total), err}
			}
			if n == 0 {
				x.res.Notes = append(x.res.Notes, "ReadFrom: reader returned 0,nil")
				return Tuple{x.intTerm(total), Iface{}}
			}
		}
	}
	I["(*bytes.Buffer).WriteTo"] = func(x *Exec, caller *frame, fn *ssa.Function, args []Value) Value {
		w := args[1].(Iface)
		un := x.bufUnread(args[0])
		n := len(un)
		if n == 0 {
			return Tuple{x.ctx.BV(0, 64), Iface{}}
		}
		res := x.invoke(w, "Write", caller, Slice{C: un}).(Tuple)
		m := x.concreteInt(res[0], "Write count")
		x.bufConsume(args[0], m)
		if !isNilIface(res[1]) {
			return Tuple{x.intTerm(m), res[1]}
		}
		if m != n {
			return Tuple{x.intTerm(m), x.ioErr("ErrShortWrite")}
		}
		return Tuple{x.intTerm(m), Iface{}}
	}
	I["(*bytes.Buffer).Truncate"] = func(x *Exec, caller *frame, fn *ssa.Function, args []Value) Value {
		n := x.concreteInt(args[1], "Truncate")
		b, o := x.bufFields(args[0])
		off := int(o.V.(*Term).Val)
		sl := b.V.(Slice)
		if n < 0 || n > len(sl.C)-off {
			x.goPanicf("bytes.Buffer: truncation out of range")
		}
		x.store(b, Slice{C: sl.C[:off+n]})
		return nil
	}

	// ----- bytes.Reader -----
	I["(*bytes.Reader).Len"] = func(x *Exec, caller *frame, fn *ssa.Function, args []Value) Value {
		n, _ := x.readerRemaining(Iface{T: fn.Signature.Recv().Type(), V: args[0]})
		return x.intTerm(n)
	}
	I["(*bytes.Reader).Read"] = func(x *Exec, caller *frame, fn *ssa.Function, args []Value) Value {
		s, i := x.rdrFields(args[0])
		data := s.V.(Slice).C
		pos := int(i.V.(*Term).SVal())
		p := args[1].(Slice)
		if pos >= len(data) {
			return Tuple{x.intTerm(0), x.ioErr("EOF")}
		}
		n := len(p.C)
		if len(data)-pos < n {
			n = len(data) - pos
		}
		for k := 0; k < n; k++ {
			x.store(&p.C[k], data[pos+k].V)
		}
		x.store(i, x.intTerm(pos+n))
		return Tuple{x.intTerm(n), Iface{}}
	}
	I["(*bytes.Reader).ReadByte"] = func(x *Exec, caller *frame, fn *ssa.Function, args []Value) Value {
		s, i := x.rdrFields(args[0])
		data := s.V.(Slice).C
		pos := int(i.V.(*Term).SVal())
		if pos >= len(data) {
			return Tuple{x.ctx.BV(0, 8), x.ioErr("EOF")}
		}
		x.store(i, x.intTerm(pos+1))
		return Tuple{data[pos].V, Iface{}}
	}
	I["(*bytes.Reader).Seek"] = func(x *Exec, caller *frame, fn *ssa.Function, args []Value) Value {
		s, i := x.rdrFields(args[0])
		off := args[1].(*Term)
		wh := x.concreteInt(args[2], "Seek whence")
		var base int
		switch wh {
		case 0:
		case 1:
			base = int(i.V.(*Term).SVal())
		case 2:
			base = len(s.V.(Slice).C)
		default:
			return Tuple{x.ctx.BV(0, 64), x.newErr("bytes.Reader.Seek: invalid whence", nil)}
		}
		abs := x.ctx.Add(x.intTerm(base), off)
		if !abs.IsConst() {
			// fork on sign, then concretize up to len+1, else symbolic large offset
			if x.branch(x.ctx.SLt(abs, x.ctx.BV(0, 64))) {
				return Tuple{x.ctx.BV(0, 64), x.newErr("bytes.Reader.Seek: negative position", nil)}
			}
			k, ok := x.concretize(abs, 0, len(s.V.(Slice).C), true)
			if !ok {
				k = len(s.V.(Slice).C) + 1 // beyond end: all reads give EOF; exact value irrelevant to reads
				x.store(i, x.intTerm(k))
				return Tuple{abs, Iface{}}
			}
			x.store(i, x.intTerm(k))
			return Tuple{x.intTerm(k), Iface{}}
		}
		if abs.SVal() < 0 {
			return Tuple{x.ctx.BV(0, 64), x.newErr("bytes.Reader.Seek: negative position", nil)}
		}
		x.store(i, abs)
		return Tuple{abs, Iface{}}
	}

	// ----- io -----
	I["io.ReadFull"] = func(x *Exec, caller *frame, fn *ssa.Function, args []Value) Value {
		r := args[0].(Iface)
		dst := args[1].(Slice)
		if dst.Lazy != nil {
			return x.readFullLazy(r, dst, caller)
		}
		n, err := x.readFull(r, dst, len(dst.C), caller)
		return Tuple{x.intTerm(n), err}
	}
	I["io.ReadAtLeast"] = func(x *Exec, caller *frame, fn *ssa.Function, args []Value) Value {
		r := args[0].(Iface)
		dst := args[1].(Slice)
		min := x.concreteInt(args[2], "ReadAtLeast min")
		n, err := x.readFull(r, dst, min, caller)
		return Tuple{x.intTerm(n), err}
	}
	I["io.CopyN"] = func(x *Exec, caller *frame, fn *ssa.Function, args []Value) Value {
		w := args[0].(Iface)
		r := args[1].(Iface)
		nT := args[2].(*Term)
		return x.copyN(w, r, nT, caller)
	}
	I["io.Copy"] = func(x *Exec, caller *frame, fn *ssa.Function, args []Value) Value {
		w := args[0].(Iface)
		r := args[1].(Iface)
		rem, ok := x.readerRemaining(r)
		if !ok {
			panic(x.unsupported("io.Copy from reader of unknown size"))
		}
		res := x.copyN(w, r, x.intTerm(rem), caller).(Tuple)
		return res
	}
	I["(io.discard).Write"] = func(x *Exec, caller *frame, fn *ssa.Function, args []Value) Value {
		p := args[1].(Slice)
		return Tuple{x.intTerm(len(p.C)), Iface{}}
	}

	// ----- encoding/binary -----
	I["encoding/binary.Write"] = func(x *Exec, caller *frame, fn *ssa.Function, args []Value) Value {
		w := args[0].(Iface)
		order := args[1].(Iface)
		data := args[2].(Iface)
		little := strings.Contains(order.T.String(), "littleEndian")
		bs := x.binaryBytes(data, little)
		if bs == nil {
			return x.newErr("binary.Write: invalid type", nil)
		}
		res := x.invoke(w, "Write", caller, x.bytesToSlice(bs, "binary.Write")).(Tuple)
		return res[1]
	}
	I["encoding/binary.Read"] = func(x *Exec, caller *frame, fn *ssa.Function, args []Value) Value {
		r := args[0].(Iface)
		order := args[1].(Iface)
		data := args[2].(Iface)
		little := strings.Contains(order.T.String(), "littleEndian")
		return x.binaryRead(r, little, data, caller)
	}

	registerNd(e)
	registerExtra(e)
}

var errIfaceCache *types.Interface

func errorIface() *types.Interface {
	if errIfaceCache == nil {
		errIfaceCache = types.Universe.Lookup("error").Type().Underlying().(*types.Interface)
	}
	return errIfaceCache
}

func (x *Exec) fmtString(f *Str, args Slice) Value {
	// Only the cases used to build observable strings are modelled: a format with no verbs, or
	// "%s"/"%v" of concrete strings. Everything else is an opaque placeholder.
	// otherwise the (concrete) format string itself stands for the result.
	fs, ok := f.Concrete()
	if ok {
		return x.strConst(fs)
	}
	return x.strConst("‹fmt›")
}

// binaryBytes serialises a fixed-size integer value (or pointer/slice thereof) in the given order.
func (x *Exec) binaryBytes(data Iface, little bool) []*Term {
	var out []*Term
	var emit func(v Value) bool
	emit = func(v Value) bool {
		switch t := v.(type) {
		case *Term:
			w := t.W
			if w == 0 {
				out = append(out, x.ctx.Ite(t, x.ctx.BV(1, 8), x.ctx.BV(0, 8)))
				return true
			}
			n := w / 8
			for i := 0; i < n; i++ {
				var k int
				if little {
					k = i
				} else {
					k = n - 1 - i
				}
				out = append(out, x.ctx.Extract(t, 8*k+7, 8*k))
			}
			return true
		case *Cell:
			if t == nil {
				return false
			}
			return emit(t.V)
		case Slice:
			for i := range t.C {
				if !emit(t.C[i].V) {
					return false
				}
			}
			return true
		case Array:
			for i := range t {
				if !emit(t[i].V) {
					return false
				}
			}
			return true
		}
		return false
	}
	if data.T == nil {
		return nil
	}
	if b, ok := data.T.Underlying().(*types.Basic); ok && (b.Kind() == types.Int || b.Kind() == types.Uint || b.Kind() == types.Uintptr) {
		return nil // binary.Write rejects platform-sized ints
	}
	if !emit(data.V) {
		return nil
	}
	if out == nil {
		out = []*Term{}
	}
	return out
}

func (x *Exec) binaryRead(r Iface, little bool, data Iface, caller *frame) Value {
	// collect scalar cells to fill
	var cells []*Cell
	var collect func(c *Cell) bool
	collect = func(c *Cell) bool {
		switch v := c.V.(type) {
		case *Term:
			cells = append(cells, c)
			return true
		case Array:
			for i := range v {
				if !collect(&v[i]) {
					return false
				}
			}
			return true
		}
		return false
	}
	switch v := data.V.(type) {
	case *Cell:
		if v == nil || !collect(v) {
			return x.newErr("binary.Read: invalid type", nil)
		}
	case Slice:
		for i := range v.C {
			if !collect(&v.C[i]) {
				return x.newErr("binary.Read: invalid type", nil)
			}
		}
	default:
		return x.newErr("binary.Read: invalid type", nil)
	}
	total := 0
	for _, c := range cells {
		w := c.V.(*Term).W
		if w == 0 {
			w = 8
		}
		total += w / 8
	}
	tmp := x.makeSlice(types.Typ[types.Uint8], total, total, "binary.Read")
	_, err := x.readFull(r, tmp, total, caller)
	if !isNilIface(err) {
		return err
	}
	pos := 0
	for _, c := range cells {
		t := c.V.(*Term)
		if t.W == 0 {
			x.store(c, x.ctx.Not(x.ctx.Eq(tmp.C[pos].V.(*Term), x.ctx.BV(0, 8))))
			pos++
			continue
		}
		n := t.W / 8
		var val *Term
		for i := 0; i < n; i++ {
			var b *Term
			if little {
				b = tmp.C[pos+n-1-i].V.(*Term)
			} else {
				b = tmp.C[pos+i].V.(*Term)
			}
			if val == nil {
				val = b
			} else {
				val = x.ctx.Concat(val, b)
			}
		}
		x.store(c, val)
		pos += n
	}
	return Iface{}
}

// copyN implements io.CopyN(w, r, n).
func (x *Exec) copyN(w, r Iface, nT *Term, caller *frame) Value {
	rem, ok := x.readerRemaining(r)
	if !ok {
		if !nT.IsConst() {
			panic(x.unsupported("io.CopyN with symbolic count from reader of unknown size"))
		}
		rem = int(nT.SVal())
	}
	n := 0
	short := false
	if nT.IsConst() {
		n = int(nT.SVal())
		if n < 0 {
			return Tuple{x.ctx.BV(0, 64), Iface{}}
		}
		if n > rem && ok {
			n, short = rem, true
		}
	} else {
		if x.branch(x.ctx.SLt(nT, x.ctx.BV(0, 64))) {
			return Tuple{x.ctx.BV(0, 64), Iface{}}
		}
		k, inr := x.concretize(nT, 0, rem, true)
		if inr {
			n = k
		} else {
			n, short = rem, true
		}
	}
	written := 0
	if n > 0 {
		tmp := x.makeSlice(types.Typ[types.Uint8], n, n, "io.CopyN")
		got, rerr := x.readFull(r, tmp, n, caller)
		if got > 0 {
			res := x.invoke(w, "Write", caller, Slice{C: tmp.C[:got]}).(Tuple)
			written = x.concreteInt(res[0], "Write count")
			if !isNilIface(res[1]) {
				return Tuple{x.intTerm(written), res[1]}
			}
		}
		if got < n {
			if isNilIface(rerr) || x.valEq(rerr, x.ioErr("ErrUnexpectedEOF")).IsTrue() {
				rerr = x.ioErr("EOF")
			}
			return Tuple{x.intTerm(written), rerr}
		}
	}
	if short {
		return Tuple{x.intTerm(written), x.ioErr("EOF")}
	}
	return Tuple{x.intTerm(written), Iface{}}
}

// readFullLazy: io.ReadFull into a slice whose symbolic length exceeds the allocation bound.
func (x *Exec) readFullLazy(r Iface, dst Slice, caller *frame) Value {
	rem, ok := x.readerRemaining(r)
	if !ok {
		panic(x.unsupported("ReadFull into lazy slice from reader of unknown size"))
	}
	// the path condition has len > allocBound; if the reader could hold that many bytes the harness bound is too small
	if rem > x.allocBound() {
		if x.feasible(x.ctx.SLe(dst.Lazy.Len, x.intTerm(rem))) {
			panic(pathEnd{Kind: "bound", Msg: fmt.Sprintf("allocation bound %d smaller than reader content %d", x.allocBound(), rem), Site: x.site()})
		}
	}
	tmp := x.makeSlice(types.Typ[types.Uint8], rem, rem, "ReadFullLazy")
	got, _ := x.readFull(r, tmp, rem, caller)
	for i := 0; i < got; i++ {
		x.store(x.lazyCell(dst, i), tmp.C[i].V)
	}
	if got == 0 {
		return Tuple{x.intTerm(0), x.ioErr("EOF")}
	}
	return Tuple{x.intTerm(got), x.ioErr("ErrUnexpectedEOF")}
}

var _ = big.NewInt
