package main

import (
	"encoding/json"
	"flag"
	"fmt"
	"os"
	"strings"
	"sync"
)

type multiFlag []string

func (m *multiFlag) String() string     { return strings.Join(*m, ",") }
func (m *multiFlag) Set(s string) error { *m = append(*m, s); return nil }

func loadOverlay(specs []string) (map[string][]byte, error) {
	ov := map[string][]byte{}
	for _, s := range specs {
		i := strings.Index(s, "=")
		if i < 0 {
			return nil, fmt.Errorf("bad overlay spec %q", s)
		}
		b, err := os.ReadFile(s[i+1:])
		if err != nil {
			return nil, err
		}
		ov[s[:i]] = b
	}
	return ov, nil
}

func main() {
	if len(os.Args) < 2 {
		fmt.Fprintln(os.Stderr, "usage: gosym explore|check ...")
		os.Exit(2)
	}
	switch os.Args[1] {
	case "explore":
		cmdExplore(os.Args[2:])
	case "check":
		cmdCheck(os.Args[2:])
	default:
		fmt.Fprintln(os.Stderr, "unknown command", os.Args[1])
		os.Exit(2)
	}
}

// cmdExplore: low-level entry: run named harness functions and dump results as JSON.
func cmdExplore(args []string) {
	fs := flag.NewFlagSet("explore", flag.ExitOnError)
	var overlays, fns, pkgs multiFlag
	fs.Var(&overlays, "overlay", "virtual=real overlay file (repeatable)")
	fs.Var(&fns, "fn", "pkgpath.Func harness (repeatable)")
	fs.Var(&pkgs, "pkg", "package pattern to load (repeatable)")
	repo := fs.String("repo", "/repo", "repository directory")
	workers := fs.Int("workers", 8, "parallel workers")
	timeout := fs.Int("timeout-ms", 60000, "solver timeout per query")
	keep := fs.Bool("keep-paths", false, "keep all path results")
	fs.Parse(args)
	ov, err := loadOverlay(overlays)
	if err != nil {
		fmt.Fprintln(os.Stderr, err)
		os.Exit(2)
	}
	eng, err := LoadEngine(*repo, pkgs, ov)
	if err != nil {
		fmt.Fprintln(os.Stderr, err)
		os.Exit(2)
	}
	var runs []*HarnessRun
	for _, f := range fns {
		i := strings.LastIndex(f, ".")
		fn := eng.Func(f[:i], f[i+1:])
		if fn == nil {
			fmt.Fprintln(os.Stderr, "no such function", f)
			os.Exit(2)
		}
		runs = append(runs, &HarnessRun{Name: f, Fn: fn, KeepPaths: *keep})
	}
	results := RunAll(eng, runs, *workers, *timeout)
	enc := json.NewEncoder(os.Stdout)
	enc.SetIndent("", " ")
	enc.Encode(map[string]interface{}{"load_s": eng.LoadSeconds, "results": results})
}

// RunAll explores harness runs on a pool of workers.
func RunAll(eng *Engine, runs []*HarnessRun, workers, timeoutMs int) []*HarnessResult {
	results := make([]*HarnessResult, len(runs))
	ch := make(chan int)
	var wg sync.WaitGroup
	if workers > len(runs) {
		workers = len(runs)
	}
	for w := 0; w < workers; w++ {
		wg.Add(1)
		go func() {
			defer wg.Done()
			wk := NewWorker(eng, timeoutMs)
			defer wk.Close()
			for i := range ch {
				if os.Getenv("GOSYM_PROGRESS") != "" {
					fmt.Fprintf(os.Stderr, "start %s\n", runs[i].Name)
				}
				if os.Getenv("GOSYM_PROGRESS") != "" {
					runs[i].KeepPaths = true
				}
				results[i] = wk.Explore(runs[i])
				if os.Getenv("GOSYM_PROGRESS") != "" {
					fmt.Fprintf(os.Stderr, "done %s paths=%d wall=%.1fs\n", runs[i].Name, results[i].Paths, results[i].WallSec)
					for _, p := range results[i].AllPaths {
						for _, a := range p.Asserts {
							if a.Ms > 500 {
								fmt.Fprintf(os.Stderr, "   slow assert %dms %s %s\n", a.Ms, a.Status, a.Msg)
							}
						}
					}
				}
			}
		}()
	}
	for i := range runs {
		ch <- i
	}
	close(ch)
	wg.Wait()
	return results
}

