package main

// Long-lived SMT solver process (z3 -in by default). Every DAG node used in a query is
// defined once at level 0 as a define-fun abbreviation; queries are push/assert/check-sat/pop.

import (
	"bufio"
	"fmt"
	"io"
	"math/big"
	"os"
	"os/exec"
	"strings"
	"time"
)

type SolverStats struct {
	Queries  int
	Sat      int
	Unsat    int
	Unknown  int
	Errors   int
	WallNs   int64
	MaxNs    int64
	Restarts int
	Killed   int
	Retries  int
}

type Solver struct {
	ctx       *Ctx
	cmd       *exec.Cmd
	in        io.WriteCloser
	out       *bufio.Reader
	defined   map[int]bool
	declFuns  map[string]bool
	Stats     SolverStats
	TimeoutMs int
	RetryFactor int // > 1: a query answered unknown is retried once with TimeoutMs*RetryFactor
	Bin       []string
	Log       io.Writer // optional transcript
	dead      bool
}

func NewSolver(ctx *Ctx, timeoutMs int) *Solver {
	s := &Solver{ctx: ctx, TimeoutMs: timeoutMs, Bin: []string{"z3", "-in"}, RetryFactor: int(envInt("GOSYM_RETRY_FACTOR", 5))}
	if b := os.Getenv("GOSYM_SOLVER"); b != "" {
		s.Bin = strings.Fields(b)
	}
	if p := os.Getenv("GOSYM_SOLVER_LOG"); p != "" {
		f, _ := os.OpenFile(fmt.Sprintf("%s.%d", p, time.Now().UnixNano()), os.O_CREATE|os.O_WRONLY|os.O_TRUNC, 0o644)
		s.Log = f
	}
	s.start()
	return s
}

func (s *Solver) start() {
	s.cmd = exec.Command(s.Bin[0], s.Bin[1:]...)
	in, _ := s.cmd.StdinPipe()
	out, _ := s.cmd.StdoutPipe()
	s.cmd.Stderr = nil
	if err := s.cmd.Start(); err != nil {
		panic(err)
	}
	s.in = in
	s.out = bufio.NewReaderSize(out, 1<<16)
	s.defined = map[int]bool{}
	s.declFuns = map[string]bool{}
	s.dead = false
	s.send("(set-option :print-success false)")
	if strings.Contains(s.Bin[0], "z3") {
		s.send(fmt.Sprintf("(set-option :timeout %d)", s.TimeoutMs))
	}
}

func (s *Solver) Close() {
	if s.cmd != nil && s.cmd.Process != nil {
		s.in.Close()
		s.cmd.Process.Kill()
		s.cmd.Wait()
	}
}

// watchdog kills the solver process when it does not answer within three times its soft timeout plus ten seconds
// (z3's :timeout is not honoured inside some preprocessing steps); the caller then sees a dead solver = unknown.
func (s *Solver) watchdog() func() {
	if s.TimeoutMs <= 0 || s.cmd == nil || s.cmd.Process == nil {
		return func() {}
	}
	proc := s.cmd.Process
	t := time.AfterFunc(time.Duration(3*s.TimeoutMs)*time.Millisecond+10*time.Second, func() {
		s.Stats.Killed++
		proc.Kill()
	})
	return func() { t.Stop() }
}

func (s *Solver) restart() {
	s.Close()
	s.Stats.Restarts++
	s.start()
}

func (s *Solver) send(line string) {
	if s.Log != nil {
		fmt.Fprintln(s.Log, line)
	}
	io.WriteString(s.in, line)
	io.WriteString(s.in, "\n")
}

func (s *Solver) readLine() string {
	l, err := s.out.ReadString('\n')
	if err != nil {
		s.dead = true
		return "(error \"solver died\")"
	}
	return strings.TrimSpace(l)
}

// ensure defines term t (and its sub-DAG) in the solver.
func (s *Solver) ensure(t *Term) {
	if s.defined[t.ID] {
		return
	}
	// iterative post-order
	type fr struct {
		t *Term
		i int
	}
	stack := []fr{{t, 0}}
	for len(stack) > 0 {
		top := &stack[len(stack)-1]
		if s.defined[top.t.ID] {
			stack = stack[:len(stack)-1]
			continue
		}
		if top.i < len(top.t.Args) {
			a := top.t.Args[top.i]
			top.i++
			if !s.defined[a.ID] && a.Op != OpConst {
				stack = append(stack, fr{a, 0})
			}
			continue
		}
		n := top.t
		stack = stack[:len(stack)-1]
		switch n.Op {
		case OpConst:
			// inline
		case OpVar:
			s.send(fmt.Sprintf("(declare-const %s %s)", varSym(n), sortStr(n.W)))
		default:
			if n.Op == OpApp && !s.declFuns[n.Name] {
				s.send(s.ctx.Funs[n.Name])
				s.declFuns[n.Name] = true
			}
			if n.Op == OpApp && len(n.Args) == 0 {
				break
			}
			s.send(fmt.Sprintf("(define-fun t%d () %s %s)", n.ID, sortStr(n.W), headStr(n, s.ref)))
		}
		s.defined[n.ID] = true
	}
}

func (s *Solver) ref(t *Term) string {
	switch t.Op {
	case OpConst:
		return constStr(t)
	case OpVar:
		return varSym(t)
	case OpApp:
		if len(t.Args) == 0 {
			return smtSym(t.Name)
		}
	}
	return fmt.Sprintf("t%d", t.ID)
}

type Result int

const (
	Unsat Result = iota
	Sat
	Unknown
)

func (r Result) String() string { return [...]string{"unsat", "sat", "unknown"}[r] }

// Check decides satisfiability of the conjunction of conds. If sat and wantModel, returns values of all ctx vars
// that are defined in the solver.
func (s *Solver) Check(conds []*Term, wantModel bool) (Result, map[string]*big.Int) {
	res, m := s.checkOnce(conds, wantModel)
	if res == Unknown && s.TimeoutMs > 0 && s.RetryFactor > 1 {
		// "unknown" from the incremental core is not a verdict about the formula: the machine may be loaded, and
		// z3's incremental mode does not run the bit-blasting tactic pipeline that decides 64-bit multiply/divide
		// queries. The query is written out as a standalone script and given once to a fresh one-shot z3 with a larger
		// budget before it is reported as unknown.
		s.Stats.Retries++
		r2, m2 := s.oneShot(conds, wantModel, time.Duration(s.TimeoutMs*s.RetryFactor)*time.Millisecond)
		if r2 != Unknown {
			s.Stats.Unknown--
			if r2 == Sat {
				s.Stats.Sat++
			} else {
				s.Stats.Unsat++
			}
			return r2, m2
		}
	}
	return res, m
}

// oneShot decides conds with a fresh solver process on a standalone script.
func (s *Solver) oneShot(conds []*Term, wantModel bool, timeout time.Duration) (Result, map[string]*big.Int) {
	var live []*Term
	for _, c := range conds {
		if !c.IsTrue() {
			live = append(live, c)
		}
	}
	script := s.ctx.Script(live, "")
	var vars []*Term
	if wantModel {
		need := new(big.Int)
		for _, c := range live {
			need.Or(need, s.ctx.VarSet(c))
		}
		for i, v := range s.ctx.Vars {
			if need.Bit(i+1) == 1 {
				vars = append(vars, v)
			}
		}
		if len(vars) > 0 {
			var sb strings.Builder
			sb.WriteString("(get-value (")
			for _, v := range vars {
				sb.WriteString(varSym(v))
				sb.WriteByte(' ')
			}
			sb.WriteString("))\n")
			script += sb.String()
		}
	}
	if d := os.Getenv("GOSYM_DUMP_ONESHOT"); d != "" {
		os.MkdirAll(d, 0o755)
		os.WriteFile(fmt.Sprintf("%s/q%d-%d.smt2", d, os.Getpid(), s.Stats.Retries), []byte(script), 0o644)
	}
	f, err := os.CreateTemp("", "gosym-oneshot-*.smt2")
	if err != nil {
		return Unknown, nil
	}
	defer os.Remove(f.Name())
	f.WriteString(script)
	f.Close()
	t0 := time.Now()
	out, err := runWithTimeout([]string{"z3", f.Name()}, timeout)
	d := time.Since(t0).Nanoseconds()
	s.Stats.WallNs += d
	if d > s.Stats.MaxNs {
		s.Stats.MaxNs = d
	}
	if err != nil && out == "" {
		return Unknown, nil
	}
	first := ""
	rest := out
	if i := strings.Index(out, "\n"); i >= 0 {
		first, rest = strings.TrimSpace(out[:i]), out[i+1:]
	} else {
		first = strings.TrimSpace(out)
	}
	switch first {
	case "unsat":
		if strings.Contains(out, "(error") && !wantModel {
			return Unknown, nil
		}
		if strings.Contains(strings.Replace(out, "model is not available", "", -1), "(error") {
			return Unknown, nil
		}
		return Unsat, nil
	case "sat":
		if strings.Contains(out, "(error") {
			return Unknown, nil
		}
		m := map[string]*big.Int{}
		if wantModel {
			parseValues(rest, vars, m)
		}
		return Sat, m
	}
	return Unknown, nil
}

func (s *Solver) setTimeout(ms int) {
	s.TimeoutMs = ms
	if !s.dead {
		s.send(fmt.Sprintf("(set-option :timeout %d)", ms))
	}
}

func (s *Solver) checkOnce(conds []*Term, wantModel bool) (Result, map[string]*big.Int) {
	// quick syntactic
	var live []*Term
	for _, c := range conds {
		if c.IsFalse() {
			return Unsat, nil
		}
		if !c.IsTrue() {
			live = append(live, c)
		}
	}
	if s.dead {
		s.restart()
	}
	for _, c := range live {
		s.ensure(c)
	}
	t0 := time.Now()
	s.send("(push 1)")
	for _, c := range live {
		s.send("(assert " + s.ref(c) + ")")
	}
	s.send("(check-sat)")
	stopWatchdog := s.watchdog()
	defer stopWatchdog()
	ans := s.readLine()
	for ans == "" || strings.HasPrefix(ans, ";") {
		ans = s.readLine()
	}
	if strings.HasPrefix(ans, "(error") || s.dead {
		s.Stats.Errors++
		s.Stats.Unknown++
		s.Stats.Queries++
		fmt.Fprintln(os.Stderr, "solver error:", ans)
		s.restart()
		return Unknown, nil
	}
	var res Result
	var model map[string]*big.Int
	switch ans {
	case "sat":
		res = Sat
		s.Stats.Sat++
		if wantModel {
			model = s.getModel(live)
		}
	case "unsat":
		res = Unsat
		s.Stats.Unsat++
	default:
		res = Unknown
		s.Stats.Unknown++
	}
	if !s.dead {
		s.send("(pop 1)")
	}
	d := time.Since(t0).Nanoseconds()
	s.Stats.Queries++
	s.Stats.WallNs += d
	if d > s.Stats.MaxNs {
		s.Stats.MaxNs = d
	}
	return res, model
}

// CheckValue decides satisfiability of conds and, if sat, returns the model value of bit-vector term t.
func (s *Solver) CheckValue(conds []*Term, t *Term) (Result, *big.Int) {
	for _, c := range conds {
		if c.IsFalse() {
			return Unsat, nil
		}
	}
	if s.dead {
		s.restart()
	}
	for _, c := range conds {
		if !c.IsTrue() {
			s.ensure(c)
		}
	}
	s.ensure(t)
	t0 := time.Now()
	s.send("(push 1)")
	for _, c := range conds {
		if !c.IsTrue() {
			s.send("(assert " + s.ref(c) + ")")
		}
	}
	s.send("(check-sat)")
	stopWatchdog := s.watchdog()
	defer stopWatchdog()
	ans := s.readLine()
	for ans == "" || strings.HasPrefix(ans, ";") {
		ans = s.readLine()
	}
	if strings.HasPrefix(ans, "(error") || s.dead {
		s.Stats.Errors++
		s.Stats.Unknown++
		s.Stats.Queries++
		fmt.Fprintln(os.Stderr, "solver error:", ans)
		s.restart()
		return Unknown, nil
	}
	var res Result
	var val *big.Int
	switch ans {
	case "sat":
		res = Sat
		s.Stats.Sat++
		s.send("(get-value (" + s.ref(t) + "))")
		txt := s.readSexp()
		// ((tNN #x..)) or ((name #b..))
		if i := strings.Index(txt, "#x"); i >= 0 {
			end := strings.IndexAny(txt[i:], ") ")
			val, _ = new(big.Int).SetString(txt[i+2:i+end], 16)
		} else if i := strings.Index(txt, "#b"); i >= 0 {
			end := strings.IndexAny(txt[i:], ") ")
			val, _ = new(big.Int).SetString(txt[i+2:i+end], 2)
		}
		if val == nil {
			res = Unknown
		}
	case "unsat":
		res = Unsat
		s.Stats.Unsat++
	default:
		res = Unknown
		s.Stats.Unknown++
	}
	if !s.dead {
		s.send("(pop 1)")
	}
	d := time.Since(t0).Nanoseconds()
	s.Stats.Queries++
	s.Stats.WallNs += d
	if d > s.Stats.MaxNs {
		s.Stats.MaxNs = d
	}
	return res, val
}

// getModel returns the values of the variables occurring in conds; nil if any of them could not be read.
func (s *Solver) getModel(conds []*Term) map[string]*big.Int {
	m := map[string]*big.Int{}
	need := new(big.Int)
	for _, c := range conds {
		need.Or(need, s.ctx.VarSet(c))
	}
	var vars []*Term
	for i, v := range s.ctx.Vars {
		if need.Bit(i+1) == 1 && s.defined[v.ID] {
			vars = append(vars, v)
		}
	}
	defer func() {
		for _, v := range vars {
			if _, ok := m[fmt.Sprintf("%s!%d", v.Name, v.W)]; !ok {
				m["!incomplete"] = big.NewInt(1)
			}
		}
	}()
	// batch in groups
	for i := 0; i < len(vars); i += 50 {
		j := i + 50
		if j > len(vars) {
			j = len(vars)
		}
		var sb strings.Builder
		sb.WriteString("(get-value (")
		for _, v := range vars[i:j] {
			sb.WriteString(varSym(v))
			sb.WriteByte(' ')
		}
		sb.WriteString("))")
		s.send(sb.String())
		txt := s.readSexp()
		parseValues(txt, vars[i:j], m)
	}
	return m
}

// readSexp reads lines until parentheses balance.
func (s *Solver) readSexp() string {
	var sb strings.Builder
	depth := 0
	started := false
	for {
		l := s.readLine()
		sb.WriteString(l)
		sb.WriteByte(' ')
		inBar := false
		for _, ch := range l {
			if ch == '|' {
				inBar = !inBar
			}
			if inBar {
				continue
			}
			if ch == '(' {
				depth++
				started = true
			} else if ch == ')' {
				depth--
			}
		}
		if (started && depth <= 0) || s.dead {
			break
		}
	}
	return sb.String()
}

func parseValues(txt string, vars []*Term, m map[string]*big.Int) {
	// format: ((name value) (name value) ...), value: #x.. | #b.. | true | false | (_ bvN w)
	for _, v := range vars {
		sym := varSym(v)
		idx := strings.Index(txt, "("+sym+" ")
		if idx < 0 {
			continue
		}
		rest := txt[idx+len(sym)+2:]
		rest = strings.TrimSpace(rest)
		var val *big.Int
		switch {
		case strings.HasPrefix(rest, "#x"):
			end := strings.IndexAny(rest, ") ")
			val, _ = new(big.Int).SetString(rest[2:end], 16)
		case strings.HasPrefix(rest, "#b"):
			end := strings.IndexAny(rest, ") ")
			val, _ = new(big.Int).SetString(rest[2:end], 2)
		case strings.HasPrefix(rest, "true"):
			val = big.NewInt(1)
		case strings.HasPrefix(rest, "false"):
			val = big.NewInt(0)
		case strings.HasPrefix(rest, "(_ bv"):
			end := strings.IndexAny(rest[5:], " )")
			val, _ = new(big.Int).SetString(rest[5:5+end], 10)
		}
		if val != nil {
			m[fmt.Sprintf("%s!%d", v.Name, v.W)] = val
		}
	}
}

// Script renders a standalone SMT-LIB script for the conjunction of conds (for one-shot heavy queries
// and cross-solver checks).
func (c *Ctx) Script(conds []*Term, logic string) string {
	var sb strings.Builder
	if logic != "" {
		fmt.Fprintf(&sb, "(set-logic %s)\n", logic)
	}
	defined := map[int]bool{}
	funs := map[string]bool{}
	ref := func(t *Term) string {
		switch t.Op {
		case OpConst:
			return constStr(t)
		case OpVar:
			return varSym(t)
		case OpApp:
			if len(t.Args) == 0 {
				return smtSym(t.Name)
			}
		}
		return fmt.Sprintf("t%d", t.ID)
	}
	var visit func(t *Term)
	visit = func(t *Term) {
		if defined[t.ID] || t.Op == OpConst {
			return
		}
		for _, a := range t.Args {
			visit(a)
		}
		defined[t.ID] = true
		switch t.Op {
		case OpVar:
			fmt.Fprintf(&sb, "(declare-const %s %s)\n", varSym(t), sortStr(t.W))
		default:
			if t.Op == OpApp && !funs[t.Name] {
				sb.WriteString(c.Funs[t.Name] + "\n")
				funs[t.Name] = true
			}
			if t.Op == OpApp && len(t.Args) == 0 {
				return
			}
			fmt.Fprintf(&sb, "(define-fun t%d () %s %s)\n", t.ID, sortStr(t.W), headStr(t, ref))
		}
	}
	for _, t := range conds {
		visit(t)
	}
	for _, t := range conds {
		fmt.Fprintf(&sb, "(assert %s)\n", ref(t))
	}
	sb.WriteString("(check-sat)\n")
	return sb.String()
}

// RunScript runs a one-shot solver on a script; returns result text ("sat","unsat","unknown","timeout","error").
func RunScript(bin []string, script string, timeout time.Duration) (string, time.Duration) {
	f, err := os.CreateTemp("", "gosym-*.smt2")
	if err != nil {
		return "error", 0
	}
	defer os.Remove(f.Name())
	f.WriteString(script)
	f.Close()
	t0 := time.Now()
	args := append(append([]string{}, bin[1:]...), f.Name())
	cmd := exec.Command(bin[0], args...)
	done := make(chan struct{})
	var out []byte
	go func() {
		out, _ = cmd.CombinedOutput()
		close(done)
	}()
	select {
	case <-done:
	case <-time.After(timeout):
		if cmd.Process != nil {
			cmd.Process.Kill()
		}
		<-done
		return "timeout", time.Since(t0)
	}
	d := time.Since(t0)
	txt := string(out)
	if strings.Contains(txt, "(error") {
		return "error", d
	}
	for _, l := range strings.Split(txt, "\n") {
		l = strings.TrimSpace(l)
		if l == "sat" || l == "unsat" || l == "unknown" {
			return l, d
		}
	}
	return "error", d
}

func runWithTimeout(argv []string, timeout time.Duration) (string, error) {
	cmd := exec.Command(argv[0], argv[1:]...)
	done := make(chan struct{})
	var out []byte
	var err error
	go func() {
		out, err = cmd.CombinedOutput()
		close(done)
	}()
	select {
	case <-done:
		return string(out), err
	case <-time.After(timeout):
		if cmd.Process != nil {
			cmd.Process.Kill()
		}
		<-done
		return "", fmt.Errorf("timeout")
	}
}
