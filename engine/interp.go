package main

import (
	"fmt"
	"sort"
	"go/constant"
	"go/token"
	"go/types"
	"math/big"
	"os"
	"strings"

	"golang.org/x/tools/go/ssa"
)

// ---------- path termination ----------

type pathEnd struct {
	Kind string // "panic", "unsupported", "infeasible", "blocked", "bound", "assertfail", "stop"
	Msg  string
	Site string
}

func (p pathEnd) Error() string { return p.Kind + ": " + p.Msg + " @ " + p.Site }

// goPanic carries a Go-level panic value through interpreter frames (so that defers run).
type goPanic struct {
	Msg  string
	Site string
}

type choice struct {
	Taken int
	Alts  []int // feasible alternatives not yet explored
}

type deferred struct {
	fn   Value
	args []Value
	site string
}

type frame struct {
	fn        *ssa.Function
	env       map[ssa.Value]Value
	block     *ssa.BasicBlock
	prev      *ssa.BasicBlock
	defers    []deferred
	caller    *frame
	result    Value
	panicking *goPanic
	recovered bool
	callSite  string
	skipPhis  bool
}

// Exec is the state of one path execution.
type Exec struct {
	eng    *Engine
	ctx    *Ctx
	solver *Solver

	pc        []*Term
	decisions []choice
	pos       int
	trace     []choice

	globals  map[*ssa.Global]*Cell
	allocSeq int
	epoch    int
	errSeq   int
	steps    int
	maxSteps int
	depth    int

	symCount map[string]int // occurrence counters for nd names
	inputs   []NdInput      // nd inputs created on this path, in order

	res *PathResult
	h   *HarnessRun

	curInstr ssa.Instruction
	curFn    *ssa.Function

	writeLog   []*Cell // cells written (when tracking)
	trackWrite bool
	released   map[interface{}]bool // memory handed to a sync.Pool by the tracked call (C18)
	poolUse    int                  // functions that returned memory they had already handed to a sync.Pool
	mapWrites  []*Map
	notes      []string
	lastModel  map[string]*big.Int
	initDone   map[*ssa.Package]bool
	inInit     int
	merging    int
	mergeBase  int
	blocks         map[string]*cblock
	blockSeq       int
	compressPolicy int
	crcTable       *Cell
	pcVars         *big.Int
	pcVarsN        int
	initSkipped    int
	frozen         bool
	ctxErrs        map[string]Value
	w              *Worker
	funcs          map[*ssa.Function]int
}

type NdInput struct {
	Name string
	W    int    // width in bits; 0 = bool; -1 = choice
	Term *Term  // nil for choices
	Val  int    // for choices
	Kind string // "bv","bool","choice"
}

func (x *Exec) site() string {
	if x.curInstr == nil {
		return "?"
	}
	pos := x.curInstr.Pos()
	fn := x.curInstr.Parent()
	p := x.eng.prog.Fset.Position(pos)
	if !pos.IsValid() {
		// search backwards in block for a valid position
		if b := x.curInstr.Block(); b != nil {
			for _, in := range b.Instrs {
				if in.Pos().IsValid() {
					p = x.eng.prog.Fset.Position(in.Pos())
				}
				if in == x.curInstr {
					break
				}
			}
		}
	}
	file := p.Filename
	if i := strings.LastIndex(file, "/"); i >= 0 {
		j := strings.LastIndex(file[:i], "/")
		file = file[j+1:]
	}
	return fmt.Sprintf("%s (%s:%d)", fn.String(), file, p.Line)
}

func (x *Exec) unsupported(msg string) pathEnd {
	return pathEnd{Kind: "unsupported", Msg: msg, Site: x.site()}
}

func (x *Exec) goPanicf(format string, args ...interface{}) {
	panic(&goPanic{Msg: fmt.Sprintf(format, args...), Site: x.site()})
}

// ---------- decisions ----------

// choose records a decision among the feasible options opts (non-empty) and returns the one to take.
// When replaying a recorded prefix the recorded decision is returned and opts is ignored (callers pass nil).
func (x *Exec) choose(opts func() []int) int {
	if x.pos < len(x.decisions) {
		d := x.decisions[x.pos]
		x.pos++
		x.trace = append(x.trace, d)
		return d.Taken
	}
	o := opts()
	if len(o) == 0 {
		panic(pathEnd{Kind: "infeasible", Msg: "no feasible option", Site: x.site()})
	}
	d := choice{Taken: o[0], Alts: append([]int{}, o[1:]...)}
	x.pos++
	x.trace = append(x.trace, d)
	return d.Taken
}

func (x *Exec) chooseN(n int) int {
	return x.choose(func() []int {
		o := make([]int, n)
		for i := range o {
			o[i] = i
		}
		return o
	})
}

func (x *Exec) replaying() bool { return x.pos < len(x.decisions) }

func (x *Exec) feasible(extra ...*Term) bool {
	conds := append(append([]*Term{}, x.pc...), extra...)
	for _, c := range extra {
		if c.IsFalse() {
			return false
		}
	}
	// a model produced earlier for this harness (on this or a sibling path) may already witness feasibility
	if x.w != nil && x.merging == 0 {
		for i := len(x.w.pool) - 1; i >= 0; i-- {
			if x.w.pool[i].satisfies(conds) {
				x.res.ModelHits++
				return true
			}
		}
	}
	wantModel := x.w != nil && x.merging == 0
	r, m := x.solver.Check(conds, wantModel)
	if r == Unknown {
		x.res.Unknowns++
	}
	if r == Sat && m != nil {
		x.w.addModel(m)
	}
	return r != Unsat
}

// branch decides a symbolic condition, forking if both sides are feasible.
func (x *Exec) branch(c *Term) bool {
	if c.IsTrue() {
		return true
	}
	if c.IsFalse() {
		return false
	}
	x.res.SymBranches++
	if x.merging == 0 && x.res.SymBranches > x.maxSymBranches() {
		panic(pathEnd{Kind: "bound", Msg: fmt.Sprintf("more than %d symbolic branches on one path (input-controlled loop?)", x.maxSymBranches()), Site: x.site()})
	}
	if dbg := os.Getenv("GOSYM_DEBUG_BRANCH"); dbg != "" && x.curInstr != nil && strings.Contains(x.curInstr.Parent().String(), dbg) && !x.replaying() {
		str := x.ctx.Script([]*Term{c}, "")
		if len(str) > 800000 {
			str = str[:4000] + "\n.....\n" + str[len(str)-4000:]
		}
		fmt.Fprintf(os.Stderr, "BRANCH at %s:\n%s\n", x.site(), str)
	}
	taken := x.choose(func() []int {
		if x.merging > 0 {
			return []int{0, 1}
		}
		if x.freeSplit(c) {
			x.res.FreeSplits++
			return []int{0, 1}
		}
		var o []int
		tf := x.feasible(c)
		if tf {
			o = append(o, 0)
		}
		if !tf || x.feasible(x.ctx.Not(c)) {
			o = append(o, 1)
		}
		return o
	})
	if taken == 0 {
		x.pc = append(x.pc, c)
		return true
	}
	x.pc = append(x.pc, x.ctx.Not(c))
	return false
}

// mustHold checks whether c can be false under pc; if so, forks a panic path.
// Returns normally only on the path where c holds.
func (x *Exec) mustHold(c *Term, panicMsg string) {
	if c.IsTrue() {
		return
	}
	if !x.branch(c) {
		x.goPanicf("%s", panicMsg)
	}
}

// concretize forks over the feasible values lo..hi of t (inclusive) plus an "outside" option.
// Returns the concrete value, or ok=false for the outside branch.
func (x *Exec) concretize(t *Term, lo, hi int, signed bool) (int, bool) {
	if t.IsConst() {
		var v int64
		if signed {
			v = t.SVal()
		} else {
			v = int64(t.Val)
		}
		if v < int64(lo) || v > int64(hi) {
			return 0, false
		}
		return int(v), true
	}
	n := hi - lo + 1
	if n < 0 {
		n = 0
	}
	eqc := func(i int) *Term { return x.ctx.Eq(t, x.ctx.SBV(int64(lo+i), t.W)) }
	var outside *Term
	loT, hiT := x.ctx.SBV(int64(lo), t.W), x.ctx.SBV(int64(hi), t.W)
	if signed {
		outside = x.ctx.BOr(x.ctx.SLt(t, loT), x.ctx.SLt(hiT, t))
	} else {
		outside = x.ctx.BOr(x.ctx.ULt(t, loT), x.ctx.ULt(hiT, t))
	}
	if n == 0 {
		outside = x.ctx.True
	}
	taken := x.choose(func() []int {
		var o []int
		if n > 0 {
			// enumerate the feasible values in [lo,hi] by repeated model queries (one query per feasible value)
			inRange := x.ctx.Not(outside)
			excl := []*Term{inRange}
			for len(o) <= n {
				conds := append(append([]*Term{}, x.pc...), excl...)
				res, val := x.solver.CheckValue(conds, t)
				if res == Unknown {
					x.res.Unknowns++
					// fall back to trying every value
					o = nil
					for i := 0; i < n; i++ {
						if x.feasible(eqc(i)) {
							o = append(o, i)
						}
					}
					break
				}
				if res == Unsat {
					break
				}
				var v int64
				if signed {
					v = x.ctx.BigBV(val, t.W).BigSVal().Int64()
				} else {
					v = val.Int64()
				}
				i := int(v) - lo
				if i < 0 || i >= n {
					break // cannot happen: inRange is asserted
				}
				o = append(o, i)
				excl = append(excl, x.ctx.Not(eqc(i)))
			}
			sort.Ints(o)
		}
		if x.feasible(outside) {
			o = append(o, n)
		}
		return o
	})
	if taken < n {
		x.pc = append(x.pc, eqc(taken))
		return lo + taken, true
	}
	x.pc = append(x.pc, outside)
	return 0, false
}

// ---------- running ----------

func (x *Exec) get(fr *frame, v ssa.Value) Value {
	switch v := v.(type) {
	case *ssa.Const:
		return x.constValue(v)
	case *ssa.Global:
		return x.global(v)
	case *ssa.Function:
		return v
	case *ssa.Builtin:
		return v
	case nil:
		return nil
	}
	if r, ok := fr.env[v]; ok {
		return r
	}
	panic(x.unsupported(fmt.Sprintf("get: no value for %s %T in %s", v.Name(), v, fr.fn)))
}

func (x *Exec) global(g *ssa.Global) *Cell {
	if c, ok := x.globals[g]; ok {
		return c
	}
	a := x.newAlloc(g.String(), "global")
	a.Glob = g.String()
	c := &Cell{A: a}
	c.V = x.zero(g.Type().(*types.Pointer).Elem(), a)
	x.globals[g] = c
	if init, ok := x.eng.globalInit[g.String()]; ok {
		init(x, c)
	}
	return c
}

func (x *Exec) constValue(c *ssa.Const) Value {
	t := c.Type()
	if c.Value == nil {
		return x.zero(t, nil)
	}
	switch u := t.Underlying().(type) {
	case *types.Basic:
		switch {
		case u.Info()&types.IsBoolean != 0:
			return x.ctx.Bool(constant.BoolVal(c.Value))
		case u.Info()&types.IsString != 0:
			return x.strConst(constant.StringVal(c.Value))
		case u.Info()&types.IsInteger != 0:
			w := widthOfBasic(u)
			v := constant.ToInt(c.Value)
			if i, ok := constant.Int64Val(v); ok {
				return x.ctx.BV(uint64(i), w)
			}
			if i, ok := constant.Uint64Val(v); ok {
				return x.ctx.BV(i, w)
			}
			panic(x.unsupported("big int const"))
		case u.Info()&types.IsFloat != 0:
			f, _ := constant.Float64Val(c.Value)
			if widthOfBasic(u) == 32 {
				return x.ctx.BV(uint64(f32bits(float32(f))), 32)
			}
			return x.ctx.BV(f64bits(f), 64)
		}
	}
	panic(x.unsupported(fmt.Sprintf("const of type %v", t)))
}

func (x *Exec) callFunction(fn *ssa.Function, args []Value, caller *frame) Value {
	if fn.Pkg != nil && fn.Name() == "init" && fn.Signature.Recv() == nil && fn.Pkg.Func("init") == fn {
		x.runPkgInit(fn.Pkg)
		return nil
	}
	if intr, ok := x.eng.intrinsics[fn.String()]; ok {
		return intr(x, caller, fn, args)
	}
	if fn.Pkg != nil {
		if stub, ok := x.eng.pkgStubs[fn.Pkg.Pkg.Path()]; ok {
			return stub(x, caller, fn, args)
		}
	} else if fn.Origin() != nil && fn.Origin().Pkg != nil {
		if stub, ok := x.eng.pkgStubs[fn.Origin().Pkg.Pkg.Path()]; ok {
			return stub(x, caller, fn, args)
		}
	}
	if fn.Blocks == nil {
		// try synthetic wrappers
		panic(x.unsupported("no body for " + fn.String()))
	}
	if x.eng.opaqueErrorCtor(fn) {
		return x.newErr(fn.Name(), nil)
	}
	if x.eng.mergeable(fn) {
		if r, ok := x.callMerged(fn, args, caller); ok {
			return r
		}
	}
	return x.callBody(fn, args, caller)
}

func (x *Exec) callBody(fn *ssa.Function, args []Value, caller *frame) Value {
	x.depth++
	if x.depth > 400 {
		panic(pathEnd{Kind: "bound", Msg: "call depth > 400", Site: x.site()})
	}
	if x.funcs != nil && x.inInit == 0 {
		x.funcs[fn]++
	}
	fr := &frame{fn: fn, env: make(map[ssa.Value]Value, 16), caller: caller}
	for i, p := range fn.Params {
		fr.env[p] = args[i]
	}
	for i, fv := range fn.FreeVars {
		_ = i
		_ = fv
	}
	saveInstr := x.curInstr
	x.run(fr)
	x.curInstr = saveInstr
	x.depth--
	return fr.result
}

func (x *Exec) callClosure(cl *Closure, args []Value, caller *frame) Value {
	fn := cl.Fn
	if intr, ok := x.eng.intrinsics[fn.String()]; ok {
		return intr(x, caller, fn, args)
	}
	x.depth++
	fr := &frame{fn: fn, env: make(map[ssa.Value]Value, 16), caller: caller}
	for i, p := range fn.Params {
		fr.env[p] = args[i]
	}
	for i, fv := range fn.FreeVars {
		fr.env[fv] = cl.Env[i]
	}
	saveInstr := x.curInstr
	x.run(fr)
	x.curInstr = saveInstr
	x.depth--
	return fr.result
}

func (x *Exec) callValue(fn Value, args []Value, caller *frame) Value {
	switch f := fn.(type) {
	case *ssa.Function:
		return x.callFunction(f, args, caller)
	case *Closure:
		return x.callClosure(f, args, caller)
	case *ssa.Builtin:
		return x.builtin(f, args, caller)
	case *BoundMethod:
		intr := x.eng.intrinsics[f.Name]
		return intr(x, caller, nil, append([]Value{f.Recv}, args...))
	case nil:
		x.goPanicf("call of nil function")
	}
	panic(x.unsupported(fmt.Sprintf("call of %T", fn)))
}

// lookupMethod resolves a method on dynamic type t.
func (x *Exec) lookupMethod(t types.Type, m *types.Func) *ssa.Function {
	return x.eng.prog.LookupMethod(t, m.Pkg(), m.Name())
}

// invoke calls method name on interface value recv.
func (x *Exec) invoke(recv Iface, name string, caller *frame, args ...Value) Value {
	if recv.T == nil {
		x.goPanicf("nil interface method call %s", name)
	}
	ms := x.eng.prog.MethodSets.MethodSet(recv.T)
	for i := 0; i < ms.Len(); i++ {
		sel := ms.At(i)
		if sel.Obj().Name() == name {
			fn := x.eng.prog.MethodValue(sel)
			return x.callFunction(fn, append([]Value{recv.V}, args...), caller)
		}
	}
	panic(x.unsupported(fmt.Sprintf("invoke: no method %s on %v", name, recv.T)))
}

func (x *Exec) prepareCall(fr *frame, c *ssa.CallCommon) (Value, []Value) {
	v := x.get(fr, c.Value)
	var fn Value
	var args []Value
	if c.Method == nil {
		fn = v
	} else {
		recv := v.(Iface)
		if recv.T == nil {
			x.goPanicf("invalid memory address or nil pointer dereference (method %s on nil interface)", c.Method.Name())
		}
		f := x.lookupMethod(recv.T, c.Method)
		if f == nil {
			panic(x.unsupported(fmt.Sprintf("method %s not found on %v", c.Method.Name(), recv.T)))
		}
		fn = f
		args = append(args, recv.V)
	}
	for _, a := range c.Args {
		args = append(args, x.get(fr, a))
	}
	return fn, args
}

func (x *Exec) run(fr *frame) {
	fr.block = fr.fn.Blocks[0]
	defer func() {
		// Go-level panic propagation through interpreted defers
		if r := recover(); r != nil {
			gp, ok := r.(*goPanic)
			if !ok {
				panic(r)
			}
			fr.panicking = gp
			x.runDefers(fr)
			if fr.panicking != nil {
				panic(fr.panicking)
			}
			// recovered: result = zero values / named results as stored
			x.recoverResult(fr)
		}
	}()
	for {
		// phis
		instrs := fr.block.Instrs
		i := 0
		if fr.skipPhis {
			fr.skipPhis = false
			for i < len(instrs) {
				if _, ok := instrs[i].(*ssa.Phi); !ok {
					break
				}
				i++
			}
		} else if fr.prev != nil {
			// evaluate phis simultaneously
			var idx int
			for k, p := range fr.block.Preds {
				if p == fr.prev {
					idx = k
					break
				}
			}
			var vals []Value
			for ; i < len(instrs); i++ {
				phi, ok := instrs[i].(*ssa.Phi)
				if !ok {
					break
				}
				vals = append(vals, x.get(fr, phi.Edges[idx]))
			}
			for k := 0; k < i; k++ {
				fr.env[instrs[k].(*ssa.Phi)] = vals[k]
			}
		}
		jumped := false
		for ; i < len(instrs); i++ {
			x.steps++
			if x.steps > x.maxSteps {
				panic(pathEnd{Kind: "bound", Msg: fmt.Sprintf("step limit %d", x.maxSteps), Site: x.site()})
			}
			in := instrs[i]
			x.curInstr = in
			switch x.visit(fr, in) {
			case kReturn:
				return
			case kJump:
				jumped = true
			}
			if jumped {
				break
			}
		}
		if !jumped {
			panic(x.unsupported("fell off block"))
		}
	}
}

func (x *Exec) recoverResult(fr *frame) {
	// After recovery the function returns the current values of named results (Recover block).
	if fr.fn.Recover != nil {
		fr.block = fr.fn.Recover
		fr.prev = nil
		// run recover block
		for {
			jumped := false
			for _, in := range fr.block.Instrs {
				x.curInstr = in
				switch x.visit(fr, in) {
				case kReturn:
					return
				case kJump:
					jumped = true
				}
				if jumped {
					break
				}
			}
			if !jumped {
				return
			}
		}
	}
	res := fr.fn.Signature.Results()
	switch res.Len() {
	case 0:
	case 1:
		fr.result = x.zero(res.At(0).Type(), nil)
	default:
		fr.result = x.zero(res, nil)
	}
}

func (x *Exec) runDefers(fr *frame) {
	for len(fr.defers) > 0 {
		d := fr.defers[len(fr.defers)-1]
		fr.defers = fr.defers[:len(fr.defers)-1]
		func() {
			defer func() {
				if r := recover(); r != nil {
					gp, ok := r.(*goPanic)
					if !ok {
						panic(r)
					}
					fr.panicking = gp
				}
			}()
			x.callValue(d.fn, d.args, fr)
		}()
	}
}

type cont int

const (
	kNext cont = iota
	kReturn
	kJump
)

func (x *Exec) deref(p Value) *Cell {
	c, ok := p.(*Cell)
	if !ok {
		panic(x.unsupported(fmt.Sprintf("deref of %T", p)))
	}
	if c == nil {
		x.goPanicf("invalid memory address or nil pointer dereference")
	}
	return c
}

func (x *Exec) visit(fr *frame, instr ssa.Instruction) cont {
	switch in := instr.(type) {
	case *ssa.DebugRef:
	case *ssa.UnOp:
		fr.env[in] = x.unop(fr, in)
	case *ssa.BinOp:
		fr.env[in] = x.binop(in.Op, in.X.Type(), x.get(fr, in.X), x.get(fr, in.Y))
	case *ssa.Call:
		if x.inInit > 0 && fr.fn.Name() == "init" {
			fr.env[in] = x.lenientInitCall(fr, in)
		} else {
			fn, args := x.prepareCall(fr, &in.Call)
			fr.env[in] = x.callValue(fn, args, fr)
		}
	case *ssa.ChangeInterface:
		fr.env[in] = x.get(fr, in.X)
	case *ssa.ChangeType:
		fr.env[in] = x.get(fr, in.X)
	case *ssa.Convert:
		fr.env[in] = x.conv(in.Type(), in.X.Type(), x.get(fr, in.X))
	case *ssa.SliceToArrayPointer:
		s := x.get(fr, in.X).(Slice)
		n := int(in.Type().Underlying().(*types.Pointer).Elem().Underlying().(*types.Array).Len())
		if len(s.C) < n {
			x.goPanicf("cannot convert slice with length %d to array or pointer to array with length %d", len(s.C), n)
		}
		// aliasing pointer to array: represent as cell holding Array sharing cells is not possible with
		// value cells; unsupported unless n == 0
		panic(x.unsupported("SliceToArrayPointer"))
	case *ssa.MakeInterface:
		fr.env[in] = Iface{T: in.X.Type(), V: x.get(fr, in.X)}
	case *ssa.Extract:
		fr.env[in] = x.get(fr, in.Tuple).(Tuple)[in.Index]
	case *ssa.Slice:
		fr.env[in] = x.sliceOp(fr, in)
	case *ssa.Return:
		switch len(in.Results) {
		case 0:
		case 1:
			fr.result = x.get(fr, in.Results[0])
		default:
			res := make(Tuple, len(in.Results))
			for i, r := range in.Results {
				res[i] = x.get(fr, r)
			}
			fr.result = res
		}
		if x.trackWrite && len(x.released) > 0 && fr.result != nil {
			// use after release: a function returns memory it has already given back to a sync.Pool (another
			// goroutine may obtain and overwrite it while the caller still reads it)
			got := map[interface{}]bool{}
			x.collectMutable(fr.result, got, map[interface{}]bool{})
			for k := range got {
				if x.released[k] {
					x.poolUse++
					x.notes = append(x.notes, "a function returns memory it has already handed to a sync.Pool: "+fr.fn.String())
					break
				}
			}
		}
		return kReturn
	case *ssa.RunDefers:
		x.runDefers(fr)
		if fr.panicking != nil {
			panic(fr.panicking)
		}
	case *ssa.Panic:
		v := x.get(fr, in.X)
		x.goPanicf("panic: %s", describe(v))
	case *ssa.Send:
		ch := x.get(fr, in.Chan).(*Chan)
		x.chanSend(ch, x.get(fr, in.X), true)
	case *ssa.Store:
		c := x.deref(x.get(fr, in.Addr))
		x.store(c, x.get(fr, in.Val))
	case *ssa.If:
		cond := x.get(fr, in.Cond).(*Term)
		if !cond.IsConst() {
			if join, ok := x.tryIfConvert(fr, in, cond); ok {
				fr.prev, fr.block = nil, join
				fr.skipPhis = true
				return kJump
			}
		}
		succ := 1
		if x.branch(cond) {
			succ = 0
		}
		fr.prev, fr.block = fr.block, fr.block.Succs[succ]
		return kJump
	case *ssa.Jump:
		fr.prev, fr.block = fr.block, fr.block.Succs[0]
		return kJump
	case *ssa.Defer:
		fn, args := x.prepareCall(fr, &in.Call)
		fr.defers = append(fr.defers, deferred{fn: fn, args: args, site: x.site()})
	case *ssa.Go:
		fn, args := x.prepareCall(fr, &in.Call)
		x.res.GoStmts++
		if x.h != nil && x.h.onGo != nil {
			x.h.onGo(x, fn, args)
		}
	case *ssa.MakeChan:
		n := x.get(fr, in.Size).(*Term)
		if !n.IsConst() {
			panic(x.unsupported("symbolic chan size"))
		}
		fr.env[in] = &Chan{Cap: int(n.Val), A: x.newAlloc(x.site(), "chan")}
	case *ssa.Alloc:
		fr.env[in] = x.newCell(in.Type().(*types.Pointer).Elem(), x.site())
	case *ssa.MakeSlice:
		fr.env[in] = x.makeSliceOp(fr, in)
	case *ssa.MakeMap:
		fr.env[in] = &Map{A: x.newAlloc(x.site(), "map")}
	case *ssa.Range:
		fr.env[in] = x.rangeIter(x.get(fr, in.X), in.X.Type())
	case *ssa.Next:
		fr.env[in] = x.get(fr, in.Iter).(*iter).next(x, in)
	case *ssa.FieldAddr:
		c := x.deref(x.get(fr, in.X))
		s := c.V.(Struct)
		fr.env[in] = &s[in.Field]
	case *ssa.Field:
		fr.env[in] = copyVal(x.get(fr, in.X).(Struct)[in.Field].V)
	case *ssa.IndexAddr:
		fr.env[in] = x.indexAddr(fr, in)
	case *ssa.Index:
		fr.env[in] = x.index(fr, in)
	case *ssa.Lookup:
		fr.env[in] = x.lookup(fr, in)
	case *ssa.MapUpdate:
		m := x.get(fr, in.Map).(*Map)
		if m == nil {
			x.goPanicf("assignment to entry in nil map")
		}
		x.mapUpdate(m, x.get(fr, in.Key), x.get(fr, in.Value))
	case *ssa.TypeAssert:
		fr.env[in] = x.typeAssert(in, x.get(fr, in.X).(Iface))
	case *ssa.MakeClosure:
		var env []Value
		for _, b := range in.Bindings {
			env = append(env, x.get(fr, b))
		}
		fr.env[in] = &Closure{Fn: in.Fn.(*ssa.Function), Env: env}
	case *ssa.Select:
		fr.env[in] = x.selectOp(fr, in)
	default:
		panic(x.unsupported(fmt.Sprintf("instruction %T", instr)))
	}
	return kNext
}

func (x *Exec) store(c *Cell, v Value) {
	if x.merging > 0 && (c.A == nil || c.A.ID <= x.mergeBase) {
		panic(mergeAbort{"store to pre-existing memory"})
	}
	if x.trackWrite {
		x.writeLog = append(x.writeLog, c)
	}
	storeInto(c, v)
}

func (x *Exec) load(c *Cell) Value { return copyVal(c.V) }

func (x *Exec) unop(fr *frame, in *ssa.UnOp) Value {
	v := x.get(fr, in.X)
	switch in.Op {
	case token.MUL: // load
		c := x.deref(v)
		return x.load(c)
	case token.NOT:
		return x.ctx.Not(v.(*Term))
	case token.SUB:
		t := v.(*Term)
		if isFloat(in.X.Type()) {
			// flip sign bit
			return x.ctx.Xor(t, x.ctx.BV(uint64(1)<<uint(t.W-1), t.W))
		}
		return x.ctx.Neg(t)
	case token.XOR:
		return x.ctx.BVNot(v.(*Term))
	case token.ARROW:
		ch := v.(*Chan)
		val, ok := x.chanRecv(ch, in.X.Type().Underlying().(*types.Chan).Elem(), true)
		if in.CommaOk {
			return Tuple{val, x.ctx.Bool(ok)}
		}
		return val
	}
	panic(x.unsupported("unop " + in.Op.String()))
}

func (x *Exec) makeSliceOp(fr *frame, in *ssa.MakeSlice) Value {
	ln := x.get(fr, in.Len).(*Term)
	cp := x.get(fr, in.Cap).(*Term)
	elem := in.Type().Underlying().(*types.Slice).Elem()
	ln = x.ctx.Resize(ln, 64, isSigned(in.Len.Type()))
	cp = x.ctx.Resize(cp, 64, isSigned(in.Cap.Type()))
	if ln.IsConst() && cp.IsConst() {
		n, c := ln.SVal(), cp.SVal()
		if n < 0 {
			x.goPanicf("makeslice: len out of range")
		}
		if c < n {
			x.goPanicf("makeslice: cap out of range")
		}
		if n > int64(x.eng.maxConcreteAlloc) {
			// a huge concrete allocation (length read from the wire): model it lazily, like a symbolic length above
			// the allocation bound; out-of-memory is outside every claim
			x.res.LazyAllocs = append(x.res.LazyAllocs, x.site())
			return Slice{Lazy: &LazyArr{Len: ln, Elem: elem, Sparse: map[int]*Cell{}, A: x.newAlloc(x.site(), "lazy")}}
		}
		return x.makeSlice(elem, int(n), int(c), x.site())
	}
	if ln != cp {
		// make([]T, const, sym) patterns: only cap hint; treat cap = max(len, cap) lazily unsupported unless len const
		if ln.IsConst() {
			x.mustHold(x.ctx.SLe(ln, cp), "makeslice: cap out of range")
			return x.makeSlice(elem, int(ln.SVal()), int(ln.SVal()), x.site())
		}
		panic(x.unsupported("make with distinct symbolic len and cap"))
	}
	return x.makeSymSlice(elem, ln, x.site())
}

func (x *Exec) sliceOp(fr *frame, in *ssa.Slice) Value {
	v := x.get(fr, in.X)
	getIdx := func(val ssa.Value, def int) int {
		if val == nil {
			return def
		}
		t := x.get(fr, val).(*Term)
		t = x.ctx.Resize(t, 64, isSigned(val.Type()))
		if !t.IsConst() {
			n, ok := x.concretize(t, 0, def, true)
			if !ok {
				x.goPanicf("slice bounds out of range (symbolic)")
			}
			return n
		}
		return int(t.SVal())
	}
	switch s := v.(type) {
	case *Str:
		lo := getIdx(in.Low, 0)
		hi := getIdx(in.High, len(s.B))
		if lo < 0 || hi > len(s.B) || lo > hi {
			x.goPanicf("slice bounds out of range [%d:%d] with length %d", lo, hi, len(s.B))
		}
		return &Str{B: s.B[lo:hi]}
	case Slice:
		if s.Lazy != nil {
			return x.lazySliceOp(fr, in, s)
		}
		lo := getIdx(in.Low, 0)
		hi := getIdx(in.High, len(s.C))
		mx := getIdx(in.Max, cap(s.C))
		if lo < 0 || hi > cap(s.C) || lo > hi || mx > cap(s.C) || hi > mx {
			x.goPanicf("slice bounds out of range [%d:%d:%d] with capacity %d", lo, hi, mx, cap(s.C))
		}
		if s.Nil && lo == 0 && hi == 0 {
			return Slice{Nil: true}
		}
		return Slice{C: s.C[lo:hi:mx]}
	case *Cell: // *array
		c := x.deref(s)
		arr := c.V.(Array)
		lo := getIdx(in.Low, 0)
		hi := getIdx(in.High, len(arr))
		mx := getIdx(in.Max, len(arr))
		if lo < 0 || hi > len(arr) || lo > hi || mx > len(arr) || hi > mx {
			x.goPanicf("slice bounds out of range [%d:%d] with array length %d", lo, hi, len(arr))
		}
		return Slice{C: []Cell(arr)[lo:hi:mx]}
	}
	panic(x.unsupported(fmt.Sprintf("slice of %T", v)))
}

func (x *Exec) idxTerm(fr *frame, v ssa.Value) *Term {
	t := x.get(fr, v).(*Term)
	return x.ctx.Resize(t, 64, isSigned(v.Type()))
}

// boundsCheck returns a concrete index into a container of length n, forking as needed.
func (x *Exec) boundsCheck(idx *Term, n int) int {
	if idx.IsConst() {
		i := idx.SVal()
		if i < 0 || i >= int64(n) {
			x.goPanicf("index out of range [%d] with length %d", i, n)
		}
		return int(i)
	}
	i, ok := x.concretize(idx, 0, n-1, true)
	if !ok {
		x.goPanicf("index out of range [symbolic] with length %d", n)
	}
	return i
}

func (x *Exec) indexAddr(fr *frame, in *ssa.IndexAddr) Value {
	v := x.get(fr, in.X)
	idx := x.idxTerm(fr, in.Index)
	switch s := v.(type) {
	case Slice:
		if s.Lazy != nil {
			return x.lazyIndexAddr(s, idx)
		}
		i := x.boundsCheck(idx, len(s.C))
		return &s.C[i]
	case *Cell:
		c := x.deref(s)
		arr := c.V.(Array)
		i := x.boundsCheck(idx, len(arr))
		return &arr[i]
	}
	panic(x.unsupported(fmt.Sprintf("indexaddr of %T", v)))
}

func (x *Exec) index(fr *frame, in *ssa.Index) Value {
	v := x.get(fr, in.X)
	idx := x.idxTerm(fr, in.Index)
	switch s := v.(type) {
	case Array:
		if !idx.IsConst() {
			return x.selectByIndex(idx, len(s), func(i int) Value { return s[i].V })
		}
		i := x.boundsCheck(idx, len(s))
		return copyVal(s[i].V)
	case *Str:
		if !idx.IsConst() {
			return x.selectByIndex(idx, len(s.B), func(i int) Value { return s.B[i] })
		}
		i := x.boundsCheck(idx, len(s.B))
		return s.B[i]
	}
	panic(x.unsupported(fmt.Sprintf("index of %T", v)))
}

// selectByIndex builds an ite chain for scalar element reads with a symbolic index (bounds checked).
func (x *Exec) selectByIndex(idx *Term, n int, at func(int) Value) Value {
	inb := x.ctx.BAnd(x.ctx.SLe(x.ctx.BV(0, 64), idx), x.ctx.SLt(idx, x.ctx.BV(uint64(n), 64)))
	x.mustHold(inb, fmt.Sprintf("index out of range [symbolic] with length %d", n))
	if n == 0 {
		x.goPanicf("index out of range with length 0")
	}
	first, ok := at(0).(*Term)
	if !ok {
		i := x.boundsCheck(idx, n)
		return copyVal(at(i))
	}
	res := first
	for i := 1; i < n; i++ {
		res = x.ctx.Ite(x.ctx.Eq(idx, x.ctx.BV(uint64(i), 64)), at(i).(*Term), res)
	}
	return res
}

func (x *Exec) typeAssert(in *ssa.TypeAssert, v Iface) Value {
	ok := false
	var res Value
	if v.T != nil {
		if it, isIface := in.AssertedType.Underlying().(*types.Interface); isIface {
			ok = types.Implements(v.T, it) || x.implementsViaMethodSet(v.T, it)
			res = v
		} else {
			ok = types.Identical(v.T, in.AssertedType)
			res = v.V
		}
	}
	if in.CommaOk {
		if !ok {
			res = x.zero(in.AssertedType, nil)
		}
		return Tuple{res, x.ctx.Bool(ok)}
	}
	if !ok {
		x.goPanicf("interface conversion: interface is %v, not %v", v.T, in.AssertedType)
	}
	return res
}

func (x *Exec) implementsViaMethodSet(t types.Type, it *types.Interface) bool {
	ms := x.eng.prog.MethodSets.MethodSet(t)
	for i := 0; i < it.NumMethods(); i++ {
		m := it.Method(i)
		if ms.Lookup(m.Pkg(), m.Name()) == nil {
			return false
		}
	}
	return true
}

// ---------- iteration ----------

type iter struct {
	kind string
	str  *Str
	m    *Map
	keys []*MapEntry
	i    int
}

func (x *Exec) rangeIter(v Value, t types.Type) *iter {
	switch v := v.(type) {
	case *Str:
		return &iter{kind: "str", str: v}
	case *Map:
		it := &iter{kind: "map", m: v}
		if v != nil {
			it.keys = append(it.keys, v.E...)
			if x.h != nil && x.h.mapOrder != nil {
				it.keys = x.h.mapOrder(x, it.keys)
			}
		}
		return it
	}
	panic(x.unsupported(fmt.Sprintf("range over %T", v)))
}

func (it *iter) next(x *Exec, in *ssa.Next) Value {
	if it.kind == "str" {
		if it.i >= len(it.str.B) {
			return Tuple{x.ctx.False, x.ctx.BV(0, 64), x.ctx.BV(0, 32)}
		}
		b := it.str.B[it.i]
		if !b.IsConst() {
			// require ASCII on this path (fork otherwise unsupported)
			if !x.branch(x.ctx.ULt(b, x.ctx.BV(0x80, 8))) {
				panic(x.unsupported("range over symbolic non-ASCII string"))
			}
			r := Tuple{x.ctx.True, x.ctx.BV(uint64(it.i), 64), x.ctx.ZExt(b, 24)}
			it.i++
			return r
		}
		if b.Val >= 0x80 {
			// decode concrete UTF-8
			s, _ := (&Str{B: it.str.B[it.i:]}).Concrete()
			if s == "" {
				panic(x.unsupported("range over mixed non-ASCII string"))
			}
			for idx, r := range s {
				_ = idx
				n := len(string(r))
				if r == 0xFFFD {
					n = 1
				}
				res := Tuple{x.ctx.True, x.ctx.BV(uint64(it.i), 64), x.ctx.BV(uint64(r), 32)}
				it.i += n
				return res
			}
		}
		r := Tuple{x.ctx.True, x.ctx.BV(uint64(it.i), 64), x.ctx.BV(b.Val, 32)}
		it.i++
		return r
	}
	// map
	mt := in.Iter.(*ssa.Range).X.Type().Underlying().(*types.Map)
	for it.i < len(it.keys) {
		e := it.keys[it.i]
		it.i++
		// skip deleted entries
		live := false
		for _, cur := range it.m.E {
			if cur == e {
				live = true
				break
			}
		}
		if live {
			return Tuple{x.ctx.True, e.K, copyVal(e.V)}
		}
	}
	return Tuple{x.ctx.False, x.zero(mt.Key(), nil), x.zero(mt.Elem(), nil)}
}

// ---------- maps ----------

// valEq returns a Bool term for Go == on two values of the same type.
func (x *Exec) valEq(a, b Value) *Term {
	switch av := a.(type) {
	case *Term:
		return x.ctx.Eq(av, b.(*Term))
	case *Str:
		bv := b.(*Str)
		if len(av.B) != len(bv.B) {
			return x.ctx.False
		}
		r := x.ctx.True
		for i := range av.B {
			r = x.ctx.BAnd(r, x.ctx.Eq(av.B[i], bv.B[i]))
			if r.IsFalse() {
				return r
			}
		}
		return r
	case *Cell:
		return x.ctx.Bool(av == b.(*Cell))
	case Struct:
		bv := b.(Struct)
		r := x.ctx.True
		for i := range av {
			r = x.ctx.BAnd(r, x.valEq(av[i].V, bv[i].V))
		}
		return r
	case Array:
		bv := b.(Array)
		r := x.ctx.True
		for i := range av {
			r = x.ctx.BAnd(r, x.valEq(av[i].V, bv[i].V))
		}
		return r
	case Iface:
		bv := b.(Iface)
		if av.T == nil || bv.T == nil {
			return x.ctx.Bool(av.T == nil && bv.T == nil)
		}
		if !types.Identical(av.T, bv.T) {
			return x.ctx.False
		}
		return x.valEq(av.V, bv.V)
	case *Map:
		bm, _ := b.(*Map)
		return x.ctx.Bool(av == bm)
	case *Chan:
		bc, _ := b.(*Chan)
		return x.ctx.Bool(av == bc)
	case Slice:
		// only comparison with nil is legal
		bs := b.(Slice)
		if bs.Nil && bs.C == nil {
			return x.ctx.Bool(av.Nil)
		}
		return x.ctx.Bool(bs.Nil)
	case *ErrObj:
		be, _ := b.(*ErrObj)
		return x.ctx.Bool(av == be)
	case nil:
		return x.ctx.Bool(b == nil)
	case *ssa.Function:
		return x.ctx.Bool(b == nil && av == nil)
	case *Closure:
		return x.ctx.Bool(false)
	case *BoundMethod:
		// only comparison with nil is legal for func values
		return x.ctx.Bool(av == nil && b == nil)
	}
	panic(x.unsupported(fmt.Sprintf("equality on %T", a)))
}

func (x *Exec) mapFind(m *Map, k Value) *MapEntry {
	if m == nil {
		return nil
	}
	for _, e := range m.E {
		eq := x.valEq(e.K, k)
		if x.branch(eq) {
			return e
		}
	}
	return nil
}

func (x *Exec) mapUpdate(m *Map, k, v Value) {
	if x.merging > 0 && (m.A == nil || m.A.ID <= x.mergeBase) {
		panic(mergeAbort{"map update of pre-existing map"})
	}
	if x.trackWrite {
		x.mapWrites = append(x.mapWrites, m)
	}
	if e := x.mapFind(m, k); e != nil {
		e.V = copyVal(v)
		return
	}
	m.E = append(m.E, &MapEntry{K: k, V: copyVal(v)})
}

func (x *Exec) mapDelete(m *Map, k Value) {
	if m == nil {
		return
	}
	if x.merging > 0 && (m.A == nil || m.A.ID <= x.mergeBase) {
		panic(mergeAbort{"map delete in pre-existing map"})
	}
	if x.trackWrite {
		x.mapWrites = append(x.mapWrites, m)
	}
	if e := x.mapFind(m, k); e != nil {
		for i, cur := range m.E {
			if cur == e {
				m.E = append(m.E[:i:i], m.E[i+1:]...)
				return
			}
		}
	}
}

func (x *Exec) lookup(fr *frame, in *ssa.Lookup) Value {
	v := x.get(fr, in.X)
	switch s := v.(type) {
	case *Str:
		idx := x.idxTerm(fr, in.Index)
		if !idx.IsConst() {
			return x.selectByIndex(idx, len(s.B), func(i int) Value { return s.B[i] })
		}
		i := x.boundsCheck(idx, len(s.B))
		return s.B[i]
	case *Map:
		k := x.get(fr, in.Index)
		mt := in.X.Type().Underlying().(*types.Map)
		e := x.mapFind(s, k)
		var val Value
		if e != nil {
			val = copyVal(e.V)
		} else {
			val = x.zero(mt.Elem(), nil)
		}
		if in.CommaOk {
			return Tuple{val, x.ctx.Bool(e != nil)}
		}
		return val
	}
	panic(x.unsupported(fmt.Sprintf("lookup in %T", v)))
}

// ---------- channels (non-blocking subset) ----------

func (x *Exec) chanSend(ch *Chan, v Value, blocking bool) bool {
	if ch == nil {
		if blocking {
			panic(pathEnd{Kind: "blocked", Msg: "send on nil channel", Site: x.site()})
		}
		return false
	}
	if x.merging > 0 {
		panic(mergeAbort{"channel send"})
	}
	if ch.Closed {
		x.goPanicf("send on closed channel")
	}
	if len(ch.Buf) < ch.Cap {
		ch.Buf = append(ch.Buf, v)
		return true
	}
	if blocking {
		panic(pathEnd{Kind: "blocked", Msg: "send on full channel", Site: x.site()})
	}
	return false
}

func (x *Exec) chanRecv(ch *Chan, elem types.Type, blocking bool) (Value, bool) {
	if ch == nil {
		if blocking {
			panic(pathEnd{Kind: "blocked", Msg: "receive on nil channel", Site: x.site()})
		}
		return nil, false
	}
	if len(ch.Buf) > 0 {
		v := ch.Buf[0]
		ch.Buf = ch.Buf[1:]
		return v, true
	}
	if ch.Closed {
		return x.zero(elem, nil), false
	}
	if blocking {
		panic(pathEnd{Kind: "blocked", Msg: "receive on empty channel", Site: x.site()})
	}
	return nil, false
}

func (x *Exec) selectOp(fr *frame, in *ssa.Select) Value {
	// determine ready cases
	type rc struct {
		idx int
	}
	var ready []int
	for i, st := range in.States {
		ch, _ := x.get(fr, st.Chan).(*Chan)
		if ch == nil {
			continue
		}
		if st.Dir == types.SendOnly {
			if ch.Closed || len(ch.Buf) < ch.Cap {
				ready = append(ready, i)
			}
		} else {
			if len(ch.Buf) > 0 || ch.Closed {
				ready = append(ready, i)
			}
		}
	}
	chosen := -1
	if len(ready) == 0 {
		if in.Blocking {
			panic(pathEnd{Kind: "blocked", Msg: "select with no ready case", Site: x.site()})
		}
	} else if len(ready) == 1 {
		chosen = ready[0]
	} else {
		chosen = ready[x.chooseN(len(ready))]
	}
	res := Tuple{x.ctx.SBV(int64(chosen), 64), x.ctx.False}
	for i, st := range in.States {
		if st.Dir == types.RecvOnly {
			elem := st.Chan.Type().Underlying().(*types.Chan).Elem()
			if i == chosen {
				ch := x.get(fr, st.Chan).(*Chan)
				v, ok := x.chanRecv(ch, elem, false)
				res[1] = x.ctx.Bool(ok)
				if !ok {
					v = x.zero(elem, nil)
				}
				res = append(res, v)
			} else {
				res = append(res, x.zero(elem, nil))
			}
		} else if i == chosen {
			ch := x.get(fr, st.Chan).(*Chan)
			x.chanSend(ch, x.get(fr, st.Send), false)
		}
	}
	return res
}

func debugf(format string, args ...interface{}) {
	if os.Getenv("GOSYM_DEBUG") != "" {
		fmt.Fprintf(os.Stderr, format+"\n", args...)
	}
}

// freeSplit recognises a branch condition (v == t) or (v != t) where v is a vector of whole, pairwise distinct input
// variables that occur neither in t nor in the path condition: both outcomes are then feasible without asking the
// solver (pick v equal to t, or different from it).
func (x *Exec) freeSplit(c *Term) bool {
	if c.Op == OpBNot {
		c = c.Args[0]
	}
	if c.Op != OpEq || c.Args[0].W == 0 {
		return false
	}
	for i := 0; i < 2; i++ {
		v, t := c.Args[i], c.Args[1-i]
		if !freeVec(v) {
			continue
		}
		vs := x.ctx.VarSet(v)
		if new(big.Int).And(vs, x.ctx.VarSet(t)).Sign() != 0 {
			continue
		}
		if new(big.Int).And(vs, x.pcVarSet()).Sign() != 0 {
			continue
		}
		return true
	}
	return false
}

func freeVec(v *Term) bool {
	switch v.Op {
	case OpVar:
		return true
	case OpConcat:
		seen := map[int]bool{}
		for _, a := range v.Args {
			if a.Op != OpVar || seen[a.ID] {
				return false
			}
			seen[a.ID] = true
		}
		return true
	}
	return false
}

func (x *Exec) pcVarSet() *big.Int {
	if x.pcVars == nil {
		x.pcVars = new(big.Int)
	}
	if x.pcVarsN > len(x.pc) {
		x.pcVars = new(big.Int)
		x.pcVarsN = 0
	}
	for ; x.pcVarsN < len(x.pc); x.pcVarsN++ {
		x.pcVars.Or(x.pcVars, x.ctx.VarSet(x.pc[x.pcVarsN]))
	}
	return x.pcVars
}

// lenientInitCall: inside a package initialiser a call the engine cannot execute (reflection, time zone tables, ...)
// leaves the initialised variable at its zero value instead of ending the path; any later use of such a variable
// fails closed (nil dereference => panic path that does not replay natively => inconclusive).
func (x *Exec) lenientInitCall(fr *frame, in *ssa.Call) (res Value) {
	saveDepth := x.depth
	defer func() {
		if r := recover(); r != nil {
			switch e := r.(type) {
			case pathEnd:
				if e.Kind != "unsupported" {
					panic(r)
				}
			case *goPanic:
			case mergeAbort:
				panic(r)
			default:
				// a Go runtime error inside the interpreter (e.g. reflection internals): same treatment
			}
			x.depth = saveDepth
			x.curInstr = in
			x.initSkipped++
			res = x.zero(in.Type(), nil)
		}
	}()
	fn, args := x.prepareCall(fr, &in.Call)
	return x.callValue(fn, args, fr)
}

func (x *Exec) maxSymBranches() int {
	if x.h != nil && x.h.MaxSymBranches > 0 {
		return x.h.MaxSymBranches
	}
	return 4000
}
