package main

import (
	"fmt"
	"go/ast"
	"os"
	"path/filepath"
	"sort"
	"strings"

	"golang.org/x/tools/go/packages"
)

// Generator of datacodec harnesses shared by C11 (round trip), C12 (spec bytes), C13 (no silent loss) and C14 (NULL).
// The Go types each codec accepts are read from the type switches of its convertTo*/convertFrom* functions in the
// current tree, so a type added later is covered (or reported as not covered) automatically.

type scalarCodec struct {
	Var      string // package-level codec variable
	ConvTo   string // convertTo function
	ConvFrom string // convertFrom function
	Width    int    // fixed wire width in bytes (0 = varint)
	Pref     string // preferred Go type (decode into *interface{})
	Sem      string // optional: format turning the wire value (signed, as int64 expression) into the value it denotes
	Wire     string // optional: format turning the source value expression into the unsigned wire value
	NoUntyped bool  // the preferred Go type is not modelled (time.Time): the untyped-destination part is left out
}

func (cd scalarCodec) sem(e string) string {
	if cd.Sem == "" {
		return e
	}
	return fmt.Sprintf(cd.Sem, e)
}

func (cd scalarCodec) wire(e string) string {
	if cd.Wire == "" {
		return "uint64(" + e + ")"
	}
	return fmt.Sprintf(cd.Wire, e)
}

var intCodecs = []scalarCodec{
	{Var: "Tinyint", ConvTo: "convertToInt8", ConvFrom: "convertFromInt8", Width: 1, Pref: "int8"},
	{Var: "Smallint", ConvTo: "convertToInt16", ConvFrom: "convertFromInt16", Width: 2, Pref: "int16"},
	{Var: "Int", ConvTo: "convertToInt32", ConvFrom: "convertFromInt32", Width: 4, Pref: "int32"},
	{Var: "Bigint", ConvTo: "convertToInt64", ConvFrom: "convertFromInt64", Width: 8, Pref: "int64"},
	{Var: "Counter", ConvTo: "convertToInt64", ConvFrom: "convertFromInt64", Width: 8, Pref: "int64"},
	{Var: "Varint", ConvTo: "convertToBigInt", ConvFrom: "convertFromBigInt", Width: 0, Pref: "*big.Int"},
	// date / time / timestamp hand every numeric Go type on to the int / bigint conversions: days since the epoch
	// with 2^31 added on the wire, nanoseconds of the day, milliseconds since the epoch (spec sections 5.8, 5.19, 5.20)
	{Var: "Date", ConvTo: "convertToInt32", ConvFrom: "convertFromInt32", Width: 4, Pref: "time.Time", NoUntyped: true,
		Sem: "int64(int32(uint32(%s) + 0x80000000))", Wire: "uint64(uint32(%s) + 0x80000000)"},
	{Var: "Time", ConvTo: "convertToInt64", ConvFrom: "convertFromInt64", Width: 8, Pref: "time.Duration", NoUntyped: true},
	{Var: "Timestamp", ConvTo: "convertToInt64", ConvFrom: "convertFromInt64", Width: 8, Pref: "time.Time", NoUntyped: true},
}

var goIntTypes = map[string]struct {
	nd     string
	signed bool
	bits   int
}{
	"int": {"Int", true, 64}, "int8": {"Int8", true, 8}, "int16": {"Int16", true, 16}, "int32": {"Int32", true, 32}, "int64": {"Int64", true, 64},
	"uint": {"Uint64", false, 64}, "uint8": {"Uint8", false, 8}, "uint16": {"Uint16", false, 16}, "uint32": {"Uint32", false, 32}, "uint64": {"Uint64", false, 64},
}

// caseTypes lists the case types of the first type switch in function name.
func caseTypes(pkg *packages.Package, name string) []string {
	var out []string
	for _, f := range pkg.Syntax {
		for _, d := range f.Decls {
			fd, ok := d.(*ast.FuncDecl)
			if !ok || fd.Name.Name != name || fd.Body == nil {
				continue
			}
			ast.Inspect(fd.Body, func(n ast.Node) bool {
				ts, ok := n.(*ast.TypeSwitchStmt)
				if !ok {
					return true
				}
				for _, s := range ts.Body.List {
					cc := s.(*ast.CaseClause)
					for _, e := range cc.List {
						out = append(out, exprString(e))
					}
				}
				return false
			})
		}
	}
	return out
}

func exprString(e ast.Expr) string {
	switch v := e.(type) {
	case *ast.Ident:
		return v.Name
	case *ast.StarExpr:
		return "*" + exprString(v.X)
	case *ast.SelectorExpr:
		return exprString(v.X) + "." + v.Sel.Name
	case *ast.ArrayType:
		if v.Len == nil {
			return "[]" + exprString(v.Elt)
		}
		return "[...]" + exprString(v.Elt)
	case *ast.InterfaceType:
		return "interface{}"
	}
	return fmt.Sprintf("%T", e)
}

func tname(t string) string {
	return strings.NewReplacer("*", "P", ".", "_", "[", "", "]", "S", "{", "", "}", "").Replace(t)
}

const codecLib = `
const (
	mC11 = 1 << iota // round trip
	mC12             // bytes prescribed by the specification
	mC13             // no silent loss
	mC14             // NULL handling
)

// big-endian two's complement value of b (1..8 bytes)
func refSigned(b []byte) int64 {
	v := int64(int8(b[0]))
	for _, x := range b[1:] {
		v = v<<8 | int64(x)
	}
	return v
}

// big-endian two's complement of the low w bytes of v
func refBE(v uint64, w int) []byte {
	out := make([]byte, w)
	for i := w - 1; i >= 0; i-- {
		out[i] = byte(v)
		v >>= 8
	}
	return out
}

// minimal two's complement length of the mathematical value (bits, signed flag): spec section 5.24
func refVarintLen(bits uint64, signed bool) int {
	if !signed && bits >= 1<<63 {
		return 9
	}
	v := int64(bits)
	n := 1
	for n < 8 {
		lim := int64(1) << uint(8*n-1)
		if v >= -lim && v < lim {
			break
		}
		n++
	}
	return n
}

func refVarint(bits uint64, signed bool) []byte {
	n := refVarintLen(bits, signed)
	if n == 9 {
		return append([]byte{0}, refBE(bits, 8)...)
	}
	return refBE(bits, n)
}

// value of a varint of 1..9 bytes as a big integer (spec 5.24: two's complement, big-endian)
func refVarintValue(b []byte) *big.Int {
	v := new(big.Int).SetBytes(b)
	if b[0]&0x80 != 0 {
		v.Sub(v, new(big.Int).Lsh(big.NewInt(1), uint(len(b))*8))
	}
	return v
}

var verifVersion = primitive.ProtocolVersion4

// magnitude bound of arbitrary big.Int values: quick 2^72, thorough 2^128
func verifBigSetup() {
	if verifThorough {
		nd.BigBits(128)
	} else {
		nd.BigBits(72)
	}
}
`

func genCodecHarnesses(c *CheckCtx, prop string) error {
	pkgs, err := loadTypes(c.Repo, "./datacodec")
	if err != nil {
		return err
	}
	pkg := pkgs[0]
	mode := map[string]string{"C11": "mC11", "C12": "mC12", "C13": "mC13", "C14": "mC14"}[prop]
	wrappers := mode != ""
	if !wrappers {
		mode = "0"
	}
	var lib, wr strings.Builder
	lib.WriteString("package datacodec\n\nimport (\n\t\"bytes\"\n\t\"math/big\"\n\n\tnd \"" + ndPath + "\"\n\t\"" + repoModule + "/primitive\"\n)\n\nvar _ = bytes.Equal\nvar _ *big.Int\n")
	lib.WriteString(codecLib)
	wr.WriteString("package datacodec\n\n")
	var notCovered []string
	covered := 0
	for _, cd := range intCodecs {
		to := caseTypes(pkg, cd.ConvTo)
		from := caseTypes(pkg, cd.ConvFrom)
		sort.Strings(to)
		sort.Strings(from)
		// ---------- encode direction ----------
		for _, t := range to {
			base := strings.TrimPrefix(t, "*")
			isPtr := strings.HasPrefix(t, "*")
			gi, isInt := goIntTypes[base]
			isBig := base == "big.Int"
			if !(isInt || (isBig && isPtr)) {
				if t != "nil" && t != "interface{}" {
					notCovered = append(notCovered, cd.Var+".Encode("+t+")")
				}
				continue
			}
			fn := fmt.Sprintf("verifEnc_%s_%s", cd.Var, tname(t))
			w := func(f string, a ...interface{}) { fmt.Fprintf(&lib, f, a...) }
			w("\nfunc %s(mode int) {\n\tnd.AllocBound(24)\n\tverifBigSetup()\n", fn)
			if isBig {
				w("\tx := nd.BigInt(\"x\")\n\tvar src interface{} = x\n")
			} else {
				w("\tx := %s(nd.%s(\"x\"))\n", base, gi.nd)
				if isPtr {
					w("\tvar src interface{} = &x\n")
				} else {
					w("\tvar src interface{} = x\n")
				}
			}
			w("\tb, err := %s.Encode(src, verifVersion)\n", cd.Var)
			w("\tif err != nil {\n\t\tnd.Assert(b == nil, \"%s: no bytes are returned together with an error\")\n\t\treturn\n\t}\n", cd.Var)
			if cd.Width > 0 {
				w("\tif len(b) != %d {\n\t\tnd.Assert(false, \"%s: encoded width is %d bytes\")\n\t\treturn\n\t}\n", cd.Width, cd.Var, cd.Width)
				if isBig {
					w("\tif mode&mC13 != 0 {\n\t\tnd.Assert(nd.BigEqual(x, uint64(%s), true), \"%s.Encode(%s): the encoded value equals the source value\")\n\t}\n", cd.sem("refSigned(b)"), cd.Var, t)
				} else {
					w("\tif mode&mC13 != 0 {\n\t\tnd.Assert(nd.MathEqual(uint64(x), %v, uint64(%s), true), \"%s.Encode(%s): the encoded value equals the source value\")\n\t}\n", gi.signed, cd.sem("refSigned(b)"), cd.Var, t)
					w("\tif mode&mC12 != 0 {\n\t\tnd.Assert(bytes.Equal(b, refBE(%s, %d)), \"%s.Encode(%s): %d-byte big-endian two's complement\")\n\t}\n", cd.wire("x"), cd.Width, cd.Var, t, cd.Width)
				}
			} else {
				w("\tif len(b) < 1 || len(b) > 17 {\n\t\tnd.Assert(len(b) >= 1, \"%s: a varint has at least one byte\")\n\t\treturn\n\t}\n", cd.Var)
				if isBig {
					w("\tif mode&(mC13|mC12) != 0 {\n\t\tnd.Assert(refVarintValue(b).Cmp(x) == 0, \"%s.Encode(%s): the encoded value equals the source value\")\n\t}\n", cd.Var, t)
					w("\tif mode&mC12 != 0 && len(b) >= 2 {\n\t\tr0 := b[0] == 0x00 && b[1]&0x80 == 0\n\t\trF := b[0] == 0xFF && b[1]&0x80 != 0\n\t\tnd.Assert(!r0, \"varint is minimal (no redundant leading 0x00)\")\n\t\tnd.Assert(!rF, \"varint is minimal (no redundant leading 0xFF)\")\n\t}\n")
				} else {
					w("\tif mode&mC13 != 0 {\n\t\tnd.Assert(nd.BigEqual(refVarintValue(b), uint64(x), %v), \"%s.Encode(%s): the encoded value equals the source value\")\n\t}\n", gi.signed, cd.Var, t)
					w("\tif mode&mC12 != 0 {\n\t\tnd.Assert(bytes.Equal(b, refVarint(uint64(x), %v)), \"%s.Encode(%s): minimal two's complement varint\")\n\t}\n", gi.signed, cd.Var, t)
				}
			}
			// round trip into the same representation
			w("\tif mode&mC11 != 0 {\n")
			if isBig {
				w("\t\td := new(big.Int)\n\t\twasNull, err := %s.Decode(b, d, verifVersion)\n", cd.Var)
				w("\t\tnd.Assert(err == nil, \"%s: own encoding decodes\")\n\t\tnd.Assert(!wasNull, \"%s: a non-null value is not reported as null\")\n", cd.Var, cd.Var)
				w("\t\tif err == nil {\n\t\t\tnd.Assert(d.Cmp(x) == 0, \"%s: round trip through %s returns the same value\")\n\t\t}\n", cd.Var, t)
			} else {
				w("\t\tvar d %s\n\t\twasNull, err := %s.Decode(b, &d, verifVersion)\n", base, cd.Var)
				w("\t\tnd.Assert(err == nil, \"%s: own encoding decodes\")\n\t\tnd.Assert(!wasNull, \"%s: a non-null value is not reported as null\")\n", cd.Var, cd.Var)
				w("\t\tnd.Assert(d == x, \"%s: round trip through %s returns the same value\")\n", cd.Var, t)
			}
			if !cd.NoUntyped {
				// untyped destination
				w("\t\tvar i interface{}\n\t\twasNull, err = %s.Decode(b, &i, verifVersion)\n\t\tnd.Assert(err == nil && !wasNull, \"%s: decodes into an untyped destination\")\n", cd.Var, cd.Var)
				if cd.Pref == "*big.Int" {
					w("\t\tp, ok := i.(*big.Int)\n\t\tnd.Assert(ok, \"%s: untyped destination receives the preferred type *big.Int\")\n", cd.Var)
					if isBig {
						w("\t\tif ok {\n\t\t\tnd.Assert(p.Cmp(x) == 0, \"%s: untyped destination holds the same value\")\n\t\t}\n", cd.Var)
					} else {
						w("\t\tif ok {\n\t\t\tnd.Assert(nd.BigEqual(p, uint64(x), %v), \"%s: untyped destination holds the same value\")\n\t\t}\n", gi.signed, cd.Var)
					}
				} else {
					w("\t\tp, ok := i.(%s)\n\t\tnd.Assert(ok, \"%s: untyped destination receives the preferred type %s\")\n", cd.Pref, cd.Var, cd.Pref)
					if isBig {
						w("\t\tif ok {\n\t\t\tnd.Assert(nd.BigEqual(x, uint64(p), true), \"%s: untyped destination holds the same value\")\n\t\t}\n", cd.Var)
					} else {
						w("\t\tif ok {\n\t\t\tnd.Assert(nd.MathEqual(uint64(p), true, uint64(x), %v), \"%s: untyped destination holds the same value\")\n\t\t}\n", gi.signed, cd.Var)
					}
				}
			} else {
				w("\t\t_ = wasNull\n")
			}
			w("\t}\n}\n")
			if wrappers && prop != "C14" {
				fmt.Fprintf(&wr, "func Verif%s_Enc_%s_%s() { %s(%s) }\n", prop, cd.Var, tname(t), fn, mode)
			}
			covered++
		}
		// ---------- decode direction ----------
		for _, t := range from {
			if !strings.HasPrefix(t, "*") {
				continue
			}
			base := strings.TrimPrefix(t, "*")
			gi, isInt := goIntTypes[base]
			isBig := base == "big.Int"
			if !(isInt || isBig) {
				if base != "interface{}" {
					notCovered = append(notCovered, cd.Var+".Decode("+t+")")
				}
				continue
			}
			fn := fmt.Sprintf("verifDec_%s_%s", cd.Var, tname(t))
			w := func(f string, a ...interface{}) { fmt.Fprintf(&lib, f, a...) }
			w("\nfunc %s(mode int) {\n\tnd.AllocBound(24)\n\tverifBigSetup()\n", fn)
			if cd.Width > 0 {
				w("\tb := nd.Bytes(\"b\", %d)\n", cd.Width)
			} else {
				w("\tb := nd.Bytes(\"b\", nd.Len(\"n\", 1, 9))\n")
			}
			if isBig {
				w("\td := big.NewInt(int64(nd.Int64(\"prefill\")))\n\twasNull, err := %s.Decode(b, d, verifVersion)\n", cd.Var)
			} else {
				w("\td := %s(nd.%s(\"prefill\"))\n\twasNull, err := %s.Decode(b, &d, verifVersion)\n", base, gi.nd, cd.Var)
			}
			w("\tnd.Assert(!wasNull, \"%s: non-empty bytes are not NULL\")\n", cd.Var)
			w("\tif err == nil && mode&(mC13|mC12) != 0 {\n")
			switch {
			case cd.Width > 0 && isBig:
				w("\t\tnd.Assert(nd.BigEqual(d, uint64(%s), true), \"%s.Decode(%s): the delivered value equals the encoded value\")\n", cd.sem("refSigned(b)"), cd.Var, t)
			case cd.Width > 0:
				w("\t\tnd.Assert(nd.MathEqual(uint64(d), %v, uint64(%s), true), \"%s.Decode(%s): the delivered value equals the encoded value\")\n", gi.signed, cd.sem("refSigned(b)"), cd.Var, t)
			case isBig:
				w("\t\tnd.Assert(d.Cmp(refVarintValue(b)) == 0, \"%s.Decode(%s): the delivered value equals the encoded value\")\n", cd.Var, t)
			default:
				w("\t\tnd.Assert(nd.BigEqual(refVarintValue(b), uint64(d), %v), \"%s.Decode(%s): the delivered value equals the encoded value\")\n", gi.signed, cd.Var, t)
			}
			w("\t} else {\n\t\tnd.Assert(true, \"rejected\")\n\t}\n}\n")
			if wrappers && (prop == "C13" || prop == "C12") {
				fmt.Fprintf(&wr, "func Verif%s_Dec_%s_%s() { %s(%s) }\n", prop, cd.Var, tname(t), fn, mode)
			}
			covered++
			// ---------- NULL (C14) ----------
			nf := fmt.Sprintf("verifNull_%s_%s", cd.Var, tname(t))
			w("\nfunc %s(mode int) {\n", nf)
			if isBig {
				w("\tfor _, src := range [][]byte{nil, {}} {\n\t\td := big.NewInt(int64(nd.Int64(\"prefill\")))\n\t\twasNull, err := %s.Decode(src, d, verifVersion)\n", cd.Var)
				w("\t\tnd.Assert(err == nil, \"%s: decoding NULL into %s raises no error\")\n\t\tnd.Assert(wasNull, \"%s: NULL is reported as null\")\n\t\tnd.Assert(d.Sign() == 0, \"%s: destination %s is left at its zero value\")\n\t}\n", cd.Var, t, cd.Var, cd.Var, t)
				w("\tvar p *big.Int\n\tb, err := %s.Encode(p, verifVersion)\n\tnd.Assert(err == nil, \"%s: encoding a nil %s raises no error\")\n\tnd.Assert(b == nil, \"%s: a nil %s encodes as NULL\")\n", cd.Var, cd.Var, t, cd.Var, t)
			} else {
				w("\tfor _, src := range [][]byte{nil, {}} {\n\t\td := %s(nd.%s(\"prefill\"))\n\t\tnd.Assume(d != 0)\n\t\twasNull, err := %s.Decode(src, &d, verifVersion)\n", base, gi.nd, cd.Var)
				w("\t\tnd.Assert(err == nil, \"%s: decoding NULL into %s raises no error\")\n\t\tnd.Assert(wasNull, \"%s: NULL is reported as null\")\n\t\tnd.Assert(d == 0, \"%s: destination %s is left at its zero value\")\n\t}\n", cd.Var, t, cd.Var, cd.Var, t)
				w("\tvar p *%s\n\tb, err := %s.Encode(p, verifVersion)\n\tnd.Assert(err == nil, \"%s: encoding a nil %s raises no error\")\n\tnd.Assert(b == nil, \"%s: a nil %s encodes as NULL\")\n", base, cd.Var, cd.Var, t, cd.Var, t)
			}
			w("\tb, err = %s.Encode(nil, verifVersion)\n\tnd.Assert(err == nil && b == nil, \"%s: untyped nil encodes as NULL without error\")\n", cd.Var, cd.Var)
			w("\tvar i interface{} = 1\n\twasNull, err := %s.Decode(nil, &i, verifVersion)\n\tnd.Assert(err == nil && wasNull && i == nil, \"%s: NULL into an untyped destination gives nil\")\n}\n", cd.Var, cd.Var)
			if prop == "C14" {
				fmt.Fprintf(&wr, "func VerifC14_Null_%s_%s() { %s(mC14) }\n", cd.Var, tname(t), nf)
			}
		}
	}
	// wrappers for the hand-written scalar harnesses (harness/datacodec/zz_verif_scalars.go)
	scalars := []struct {
		name, fn string
		props    string
	}{
		{"Duration_Encode", "verifDurationEncode", "C11 C12"}, {"Duration_DecodeSpecBytes", "verifDurationDecode", "C12 C13"}, {"Duration_Null", "verifDurationNull", "C14"},
		{"Float_Encode_float32", "verifFloatEncode32", "C11 C12"}, {"Float_Encode_float64", "verifFloatEncode64", "C11 C13"},
		{"Double_Encode_float64", "verifDoubleEncode64", "C11 C12"}, {"Double_Decode_Pfloat32", "verifDoubleDecode32", "C13"}, {"FloatDouble_Null", "verifFloatNull", "C14"},
		{"Boolean", "verifBoolean", "C11 C12"}, {"Boolean_Null", "verifBooleanNull", "C14"},
		{"Date_Encode_int64days", "verifDateInt", "C11 C12 C13"}, {"Date_Decode_Pint32", "verifDateDecode", "C12 C13"},
		{"Time_Encode_int64nanos", "verifTimeInt", "C11 C12 C13"}, {"Time_Encode_Duration", "verifTimeDuration", "C11 C12 C13"},
		{"Timestamp_Encode_int64millis", "verifTimestampInt", "C11 C12 C13"},
		{"Decimal", "verifDecimal", "C11 C12 C13"}, {"Decimal_Null", "verifDecimalNull", "C14"},
		{"Varint_SpecTable", "verifVarintSpecTable", "C12"},
		{"List", "verifList", "C11 C12 C14"}, {"List_DecodeSpecBytes", "verifListDecodeSpec", "C12"},
		{"Map", "verifMap", "C11 C12 C14"}, {"Tuple", "verifTuple", "C11 C12 C14"}, {"Udt", "verifUdt", "C11 C12 C14"},
		// floorDiv/floorMod by 1000 / 86400 (verifMathFloor*) are written but not registered: their 64-bit
		// multiply/divide/remainder equivalence query comes back unknown after 300 s (85 s one-shot on an idle machine)
		{"math_addExact", "verifMathAddExact", "C11 C13"}, {"math_multiplyExact_by1000", "verifMathMultiplyExact1000", "C13"}, // the converse (C11: a representable product is not refused) is unknown after 360 s
	}
	if os.Getenv("GOSYM_EXPERIMENTAL") != "" {
		scalars = append(scalars, struct {
			name, fn string
			props    string
		}{"math_floorDivMod_by1000", "verifMathFloor1000", "C13"})
	}
	for _, sc := range scalars {
		if wrappers && strings.Contains(sc.props, prop) {
			fmt.Fprintf(&wr, "func Verif%s_%s() { %s(%s) }\n", prop, sc.name, sc.fn, mode)
			covered++
		}
	}
	sort.Strings(notCovered)
	c.Extra["codec_type_pairs_generated_from_type_switches"] = covered
	c.Extra["accepted_types_not_covered"] = notCovered
	lf := filepath.Join(c.GenDir, "datacodec_zz_verif_codecs_lib_gen.go")
	wf := filepath.Join(c.GenDir, "datacodec_zz_verif_codecs_"+prop+"_gen.go")
	if err := os.WriteFile(lf, []byte(lib.String()), 0o644); err != nil {
		return err
	}
	if err := os.WriteFile(wf, []byte(wr.String()), 0o644); err != nil {
		return err
	}
	c.Overlay[filepath.Join(c.Repo, "datacodec", "zz_verif_codecs_lib_gen.go")] = lf
	c.Overlay[filepath.Join(c.Repo, "datacodec", "zz_verif_codecs_wrappers_gen.go")] = wf
	return nil
}
