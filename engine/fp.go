package main

import (
	"fmt"
	"math"
)

// Floating point: values are carried as IEEE bit patterns; operations go through the FP theory.

func fpSort(w int) string {
	if w == 32 {
		return "(_ to_fp 8 24)"
	}
	return "(_ to_fp 11 53)"
}

func (x *Exec) fpCmp(op string, a, b *Term) *Term {
	return x.ctx.Raw(fmt.Sprintf("(%s (%s %%s) (%s %%s))", op, fpSort(a.W), fpSort(b.W)), 0, a, b)
}

func (x *Exec) fpIsNaN(a *Term) *Term {
	if a.IsConst() {
		if a.W == 32 {
			f := math.Float32frombits(uint32(a.Val))
			return x.ctx.Bool(f != f)
		}
		f := math.Float64frombits(a.Val)
		return x.ctx.Bool(f != f)
	}
	return x.ctx.Raw(fmt.Sprintf("(fp.isNaN (%s %%s))", fpSort(a.W)), 0, a)
}

func (x *Exec) fpToFp(t *Term, w int) Value {
	if t.W == w {
		return t
	}
	if t.IsConst() {
		if w == 32 {
			return x.ctx.BV(uint64(math.Float32bits(float32(math.Float64frombits(t.Val)))), 32)
		}
		return x.ctx.BV(math.Float64bits(float64(math.Float32frombits(uint32(t.Val)))), 64)
	}
	// NaN payloads are not modelled: the result for a NaN input is the solver's canonical NaN.
	return x.ctx.Raw(fmt.Sprintf("(fp.to_ieee_bv (%s RNE (%s %%s)))", fpSort(w), fpSort(t.W)), w, t)
}

func (x *Exec) intToFp(t *Term, signed bool, w int) Value {
	if t.IsConst() {
		var f float64
		if signed {
			f = float64(t.SVal())
		} else {
			f = float64(t.Val)
		}
		if w == 32 {
			if signed {
				return x.ctx.BV(uint64(math.Float32bits(float32(t.SVal()))), 32)
			}
			return x.ctx.BV(uint64(math.Float32bits(float32(t.Val))), 32)
		}
		return x.ctx.BV(math.Float64bits(f), 64)
	}
	op := "to_fp_unsigned"
	if signed {
		op = "to_fp"
	}
	e, s := 11, 53
	if w == 32 {
		e, s = 8, 24
	}
	return x.ctx.Raw(fmt.Sprintf("(fp.to_ieee_bv ((_ %s %d %d) RNE %%s))", op, e, s), w, t)
}

func (x *Exec) fpToInt(t *Term, signed bool, w int) Value {
	if t.IsConst() {
		var f float64
		if t.W == 32 {
			f = float64(math.Float32frombits(uint32(t.Val)))
		} else {
			f = math.Float64frombits(t.Val)
		}
		// Go semantics for in-range values; out-of-range is implementation-defined: fail closed
		if f != f || f >= 18446744073709551616.0 || f <= -9223372036854775809.0 {
			panic(x.unsupported("float to int conversion out of range (implementation-defined)"))
		}
		if signed {
			return x.ctx.BV(uint64(int64(f)), w)
		}
		if f < 0 {
			return x.ctx.BV(uint64(int64(f)), w)
		}
		return x.ctx.BV(uint64(f), w)
	}
	op := "fp.to_ubv"
	if signed {
		op = "fp.to_sbv"
	}
	// in-range semantics only (RTZ); callers in the repo guard the range before converting
	return x.ctx.Raw(fmt.Sprintf("((_ %s %d) RTZ (%s %%s))", op, w, fpSort(t.W)), w, t)
}
