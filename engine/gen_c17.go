package main

import (
	"fmt"
	"go/types"
	"os"
	"path/filepath"
	"sort"
	"strings"
)

// genC17 generates, for every type of the current tree that has a DeepCopy method, a constructor of an arbitrary
// fully populated value (type-directed, shapes enumerated), a strict structural equality (reflect.DeepEqual
// semantics) and a harness that copies and checks equality and separation (nd.SharedMutable, heap introspection).

type arbGen struct {
	sb      strings.Builder
	done    map[string]string
	queue   []types.Type
	pkg     *types.Package
	allPkgs []*types.Package
	imports map[string]string
	eq      *eqGen
}

func (g *arbGen) qual(p *types.Package) string {
	if p == g.pkg {
		return ""
	}
	g.imports[p.Path()] = p.Name()
	return p.Name()
}
func (g *arbGen) typeStr(t types.Type) string { return types.TypeString(t, g.qual) }

func (g *arbGen) fn(t types.Type) string {
	key := types.TypeString(t, nil)
	if n, ok := g.done[key]; ok {
		return n
	}
	n := "verifArb_" + mangle(g.typeStr(t))
	g.done[key] = n
	g.queue = append(g.queue, t)
	return n
}

// exported package-level variables of pointer-to-named type (instances of types with unexported fields)
func (g *arbGen) instances(named *types.Named) []string {
	var out []string
	p := named.Obj().Pkg()
	for _, n := range p.Scope().Names() {
		v, ok := p.Scope().Lookup(n).(*types.Var)
		if !ok || !v.Exported() {
			continue
		}
		if pt, ok := v.Type().(*types.Pointer); ok && types.Identical(pt.Elem(), named) {
			out = append(out, g.qual(p)+"."+n)
		}
	}
	return out
}

func hasUnexportedFields(st *types.Struct, from *types.Package) bool {
	for i := 0; i < st.NumFields(); i++ {
		if !st.Field(i).Exported() && st.Field(i).Pkg() != from {
			return true
		}
	}
	return false
}

func (g *arbGen) emit(t types.Type) {
	name := g.done[types.TypeString(t, nil)]
	ts := g.typeStr(t)
	w := func(format string, args ...interface{}) { fmt.Fprintf(&g.sb, format, args...) }
	w("func %s(p string, depth int) %s {\n", name, ts)
	defer w("}\n\n")
	switch u := t.Underlying().(type) {
	case *types.Basic:
		conv := ts
		switch {
		case u.Info()&types.IsString != 0:
			w("\treturn %s(nd.String(p, 1))\n", conv)
		case u.Info()&types.IsBoolean != 0:
			w("\treturn %s(nd.Bool(p))\n", conv)
		case u.Info()&types.IsInteger != 0:
			nm := map[types.BasicKind]string{types.Int8: "Int8", types.Int16: "Int16", types.Int32: "Int32", types.Int64: "Int64", types.Int: "Int",
				types.Uint8: "Uint8", types.Uint16: "Uint16", types.Uint32: "Uint32", types.Uint64: "Uint64", types.Uint: "Uint64", types.Uintptr: "Uint64"}[u.Kind()]
			w("\treturn %s(nd.%s(p))\n", conv, nm)
		default:
			w("\tvar z %s\n\treturn z\n", ts)
		}
	case *types.Pointer:
		if named, ok := u.Elem().(*types.Named); ok {
			if st, ok := named.Underlying().(*types.Struct); ok && hasUnexportedFields(st, g.pkg) {
				inst := g.instances(named)
				if len(inst) > 0 {
					w("\tforce := verifArbForceNonNil\n\tverifArbForceNonNil = false\n")
					w("\tif verifArbShape(p) == 0 && !force {\n\t\treturn nil\n\t}\n")
					w("\tall := []%s{%s}\n", ts, strings.Join(inst, ", "))
					w("\treturn all[verifArbPick(p+\".instance\", len(all))]\n")
					return
				}
			}
		}
		w("\tforce := verifArbForceNonNil\n\tverifArbForceNonNil = false\n")
		w("\tif verifArbShape(p) == 0 && !force {\n\t\treturn nil\n\t}\n")
		w("\tv := %s(p, depth)\n\treturn &v\n", g.fn(u.Elem()))
	case *types.Struct:
		w("\tvar v %s\n", ts)
		for i := 0; i < u.NumFields(); i++ {
			f := u.Field(i)
			if !f.Exported() && f.Pkg() != g.pkg {
				continue
			}
			w("\tv.%s = %s(p+\".%s\", depth)\n", f.Name(), g.fn(f.Type()), f.Name())
		}
		w("\treturn v\n")
	case *types.Array:
		w("\tvar v %s\n\tfor i := range v {\n\t\tv[i] = %s(p+\"[]\", depth)\n\t}\n\treturn v\n", ts, g.fn(u.Elem()))
	case *types.Slice:
		w("\tn := verifArbShape(p)\n\tif n == 0 {\n\t\treturn nil\n\t}\n")
		if nilable(u.Elem()) {
			w("\tv := make(%s, n-1)\n\tfor i := range v {\n\t\tif verifArbNilElem(i) {\n\t\t\tcontinue\n\t\t}\n\t\tv[i] = %s(p+\"[]\", depth)\n\t}\n\treturn v\n", ts, g.fn(u.Elem()))
		} else {
			w("\tv := make(%s, n-1)\n\tfor i := range v {\n\t\tv[i] = %s(p+\"[]\", depth)\n\t}\n\treturn v\n", ts, g.fn(u.Elem()))
		}
	case *types.Map:
		w("\tn := verifArbShape(p)\n\tif n == 0 {\n\t\treturn nil\n\t}\n")
		w("\tv := %s{}\n", ts)
		if nilable(u.Elem()) {
			w("\tkeys := []string{\"k1\", \"k2\"}\n\tfor i := 0; i < n-1; i++ {\n\t\tif verifArbNilElem(i) {\n\t\t\tvar z %s\n\t\t\tv[%s(keys[i])] = z\n\t\t\tcontinue\n\t\t}\n\t\tv[%s(keys[i])] = %s(p+\"[k]\", depth)\n\t}\n\treturn v\n", g.typeStr(u.Elem()), g.typeStr(u.Key()), g.typeStr(u.Key()), g.fn(u.Elem()))
		} else {
			w("\tkeys := []string{\"k1\", \"k2\"}\n\tfor i := 0; i < n-1; i++ {\n\t\tv[%s(keys[i])] = %s(p+\"[k]\", depth)\n\t}\n\treturn v\n", g.typeStr(u.Key()), g.fn(u.Elem()))
		}
	case *types.Interface:
		impls := g.eq.implementors(t)
		// keep the fan-out small: message.Message gets three representative kinds (each kind has its own harness)
		if strings.HasSuffix(types.TypeString(t, nil), "message.Message") {
			var keep []types.Type
			for _, it := range impls {
				s := types.TypeString(it, nil)
				if strings.HasSuffix(s, ".Query") || strings.HasSuffix(s, ".PreparedResult") || strings.HasSuffix(s, ".Supported") {
					keep = append(keep, it)
				}
			}
			impls = keep
		}
		w("\tif verifArbShape(p) == 0 {\n\t\treturn nil\n\t}\n")
		isDT := strings.HasSuffix(types.TypeString(t, nil), "datatype.DataType")
		// a nil pointer boxed in an interface is not a value of the message model: force non-nil implementors
		if isDT {
			w("\tif depth <= 0 {\n\t\tverifArbForceNonNil = true\n\t\treturn %s(p, 0)\n\t}\n", g.fn(firstPrimitive(impls)))
		}
		w("\tswitch verifArbPick(p+\".dyn\", %d) {\n", len(impls))
		for i, it := range impls {
			w("\tcase %d:\n\t\tverifArbForceNonNil = true\n\t\treturn %s(p, depth-1)\n", i, g.fn(it))
		}
		w("\t}\n\treturn nil\n")
	default:
		w("\tvar z %s\n\treturn z\n", ts)
	}
}

// nilable: element types whose zero value is nil (a null entry of a collection)
func nilable(t types.Type) bool {
	switch t.Underlying().(type) {
	case *types.Slice, *types.Map, *types.Pointer, *types.Interface:
		return true
	}
	return false
}

func firstPrimitive(impls []types.Type) types.Type {
	for _, it := range impls {
		if strings.Contains(types.TypeString(it, nil), "PrimitiveType") {
			return it
		}
	}
	return impls[0]
}

const arbLib = `
// shape enumeration for generated values: verifArbMode 0: every site one element / non-nil; 1: two elements;
// 2: every site nil; 3: every site empty; 4: two elements, the second element of every collection of nil-able
// elements is nil (a null entry after a non-null one); 5: two elements, the first one nil;
// 6+2i: site i nil; 7+2i: site i empty (others one element).
var verifArbMode, verifArbCounter int
var verifArbForceNonNil bool
var verifArbPickSite, verifArbPickCounter int

func verifArbSetup(maxSites int) {
	verifArbCounter = 0
	verifArbPickCounter = 0
	verifArbMode = nd.Choice("shape", 6+2*maxSites)
	verifArbPickSite = -1
	if verifArbMode <= 1 {
		// dynamic types are varied at one site at a time (covering design), on the fully populated shapes
		verifArbPickSite = nd.Choice("picksite", 6)
	}
}

// verifArbShape returns 0 (nil), 1 (empty / non-nil), 2 (one element), 3 (two elements)
func verifArbShape(site string) int {
	i := verifArbCounter
	verifArbCounter++
	switch {
	case verifArbMode == 0:
		return 2
	case verifArbMode == 1:
		return 3
	case verifArbMode == 2:
		return 0
	case verifArbMode == 3:
		return 1
	case verifArbMode == 4 || verifArbMode == 5:
		return 3
	case verifArbMode == 6+2*i:
		return 0
	case verifArbMode == 7+2*i:
		return 1
	}
	return 2
}

// verifArbNilElem: in the null-entry shapes, element i of a collection of nil-able elements is left nil
func verifArbNilElem(i int) bool {
	return (verifArbMode == 4 && i == 1) || (verifArbMode == 5 && i == 0)
}

func verifArbDone() {
	if verifArbMode >= 6 && (verifArbMode-6)/2 >= verifArbCounter {
		nd.Assume(false)
	}
}

// verifArbPick varies the dynamic type of one site at a time
func verifArbPick(name string, n int) int {
	i := verifArbPickCounter
	verifArbPickCounter++
	if i != verifArbPickSite {
		return 0
	}
	return nd.Choice(name, n)
}
`

func genC17For(c *CheckCtx, pkgDir string) error {
	pkgs, err := loadTypes(c.Repo, "./"+pkgDir)
	if err != nil {
		return err
	}
	fp := pkgs[0].Types
	eq := &eqGen{done: map[string]string{}, pkg: fp, impls: map[string][]types.Type{}, imports: map[string]string{}, strict: true, prefix: "verifSeq_"}
	g := &arbGen{done: map[string]string{}, pkg: fp, imports: eq.imports, eq: eq}
	seen := map[*types.Package]bool{}
	var visit func(p *types.Package)
	visit = func(p *types.Package) {
		if seen[p] {
			return
		}
		seen[p] = true
		if strings.HasPrefix(p.Path(), repoModule) && !strings.Contains(p.Path(), "zzverifnd") {
			g.allPkgs = append(g.allPkgs, p)
		}
		for _, i := range p.Imports() {
			visit(i)
		}
	}
	visit(fp)
	eq.allPkgs = g.allPkgs
	// discover types with DeepCopy
	type target struct {
		t       *types.Named
		methods []string
	}
	var targets []target
	for _, p := range g.allPkgs {
		for _, n := range p.Scope().Names() {
			tn, ok := p.Scope().Lookup(n).(*types.TypeName)
			if !ok || tn.IsAlias() || !tn.Exported() {
				continue
			}
			named, ok := tn.Type().(*types.Named)
			if !ok {
				continue
			}
			ms := types.NewMethodSet(types.NewPointer(named))
			var have []string
			for _, m := range []string{"DeepCopy", "DeepCopyInto", "DeepCopyMessage", "DeepCopyDataType"} {
				if ms.Lookup(p, m) != nil {
					have = append(have, m)
				}
			}
			if len(have) > 0 {
				targets = append(targets, target{named, have})
			}
		}
	}
	sort.Slice(targets, func(i, j int) bool { return targets[i].t.String() < targets[j].t.String() })
	var hs strings.Builder
	var names []string
	for _, tg := range targets {
		pt := types.NewPointer(tg.t)
		arb := g.fn(pt)
		eqf := eq.fn(pt)
		short := tg.t.Obj().Pkg().Name() + "_" + tg.t.Obj().Name()
		names = append(names, tg.t.Obj().Pkg().Name()+"."+tg.t.Obj().Name())
		fmt.Fprintf(&hs, "func VerifC17_Copy_%s() {\n\tverifArbSetup(verifC17MaxSites)\n\tx := %s(\"x\", 1)\n\tverifArbDone()\n", short, arb)
		for _, m := range tg.methods {
			switch m {
			case "DeepCopy":
				fmt.Fprintf(&hs, "\ty := x.DeepCopy()\n\t%s(\"DeepCopy\", x, y)\n\tnd.Assert(nd.SharedMutable(x, y) == 0, \"DeepCopy shares no mutable memory with the original\")\n", eqf)
			case "DeepCopyInto":
				fmt.Fprintf(&hs, "\tif x != nil {\n\t\tvar z %s\n\t\tx.DeepCopyInto(&z)\n\t\t%s(\"DeepCopyInto\", x, &z)\n\t\tnd.Assert(nd.SharedMutable(x, &z) == 0, \"DeepCopyInto shares no mutable memory with the original\")\n\t}\n", g.typeStr(tg.t), eqf)
			case "DeepCopyMessage", "DeepCopyDataType":
				fmt.Fprintf(&hs, "\tif x != nil {\n\t\tw, ok := x.%s().(%s)\n\t\tnd.Assert(ok, \"%s keeps the dynamic type\")\n\t\tif ok {\n\t\t\t%s(\"%s\", x, w)\n\t\t\tnd.Assert(nd.SharedMutable(x, w) == 0, \"%s shares no mutable memory with the original\")\n\t\t}\n\t}\n", m, g.typeStr(pt), m, eqf, m, m)
			}
		}
		hs.WriteString("}\n\n")
	}
	for len(g.queue) > 0 {
		t := g.queue[0]
		g.queue = g.queue[1:]
		g.emit(t)
	}
	for len(eq.queue) > 0 {
		t := eq.queue[0]
		eq.queue = eq.queue[1:]
		eq.emit(t)
	}
	var hdr strings.Builder
	fmt.Fprintf(&hdr, "package %s\n\nimport (\n\t\"bytes\"\n\t\"net\"\n\n\tnd \"%s\"\n", fp.Name(), ndPath)
	var ips []string
	for p := range g.imports {
		ips = append(ips, p)
	}
	sort.Strings(ips)
	for _, p := range ips {
		if p == "net" || p == "bytes" {
			continue
		}
		fmt.Fprintf(&hdr, "\t%q\n", p)
	}
	hdr.WriteString(")\n\nvar _ = bytes.Equal\nvar _ net.IP\n\n")
	maxSites := 10
	if c.Tier == "thorough" {
		maxSites = 24
	}
	fmt.Fprintf(&hdr, "const verifC17MaxSites = %d\n", maxSites)
	hdr.WriteString(arbLib)
	f := filepath.Join(c.GenDir, strings.ReplaceAll(pkgDir, "/", "_")+"_zz_verif_c17_gen.go")
	if err := os.WriteFile(f, []byte(hdr.String()+hs.String()+g.sb.String()+eq.sb.String()), 0o644); err != nil {
		return err
	}
	c.Overlay[filepath.Join(c.Repo, pkgDir, "zz_verif_c17_gen.go")] = f
	prev, _ := c.Extra["types_with_deepcopy_found_in_tree"].([]string)
	c.Extra["types_with_deepcopy_found_in_tree"] = append(prev, names...)
	return nil
}

func genC17(c *CheckCtx) error {
	if err := genC17For(c, "frame"); err != nil {
		return err
	}
	return genC17For(c, "segment")
}
