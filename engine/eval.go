package main

// Concrete evaluation of terms under a model (values of input variables). Used to answer feasibility questions
// from models the solver has already produced (on this or on sibling paths) without another solver call.

type Model struct {
	vals map[int]uint64 // var term ID -> value (W<=64)
	memo map[int]evalRes
}

type evalRes struct {
	v  uint64
	ok bool
}

func (m *Model) eval(t *Term) (uint64, bool) {
	if r, ok := m.memo[t.ID]; ok {
		return r.v, r.ok
	}
	v, ok := m.eval1(t)
	m.memo[t.ID] = evalRes{v, ok}
	return v, ok
}

func sext64(v uint64, w int) int64 {
	if w >= 64 {
		return int64(v)
	}
	if v&(uint64(1)<<uint(w-1)) != 0 {
		return int64(v | ^mask(w))
	}
	return int64(v)
}

func b2u(b bool) uint64 {
	if b {
		return 1
	}
	return 0
}

func (m *Model) eval1(t *Term) (uint64, bool) {
	if t.W > 64 {
		return 0, false
	}
	switch t.Op {
	case OpConst:
		if t.Big != nil {
			return 0, false
		}
		return t.Val, true
	case OpVar:
		v, ok := m.vals[t.ID]
		if !ok {
			return 0, true // unconstrained variable: any value, take 0 (must then be recorded)
		}
		return v & mask64(t.W), true
	case OpApp, OpRaw:
		return 0, false
	}
	var a [3]uint64
	for i, x := range t.Args {
		if i >= 3 {
			break
		}
		if t.Op == OpIte && i > 0 {
			break
		}
		v, ok := m.eval(x)
		if !ok {
			return 0, false
		}
		a[i] = v
	}
	w := t.W
	mk := mask64(w)
	switch t.Op {
	case OpAdd:
		return (a[0] + a[1]) & mk, true
	case OpSub:
		return (a[0] - a[1]) & mk, true
	case OpMul:
		return (a[0] * a[1]) & mk, true
	case OpUDiv:
		if a[1] == 0 {
			return mk, true
		}
		return a[0] / a[1], true
	case OpURem:
		if a[1] == 0 {
			return a[0], true
		}
		return a[0] % a[1], true
	case OpSDiv:
		x, y := sext64(a[0], w), sext64(a[1], w)
		if y == 0 {
			if x < 0 {
				return 1, true
			}
			return mk, true
		}
		if y == -1 {
			return uint64(-x) & mk, true
		}
		return uint64(x/y) & mk, true
	case OpSRem:
		x, y := sext64(a[0], w), sext64(a[1], w)
		if y == 0 {
			return a[0], true
		}
		if y == -1 {
			return 0, true
		}
		return uint64(x%y) & mk, true
	case OpAnd:
		return a[0] & a[1], true
	case OpOr:
		return a[0] | a[1], true
	case OpXor:
		return a[0] ^ a[1], true
	case OpNot:
		return ^a[0] & mk, true
	case OpNeg:
		return (-a[0]) & mk, true
	case OpShl:
		if a[1] >= uint64(w) {
			return 0, true
		}
		return (a[0] << a[1]) & mk, true
	case OpLShr:
		if a[1] >= uint64(w) {
			return 0, true
		}
		return a[0] >> a[1], true
	case OpAShr:
		s := a[1]
		if s >= uint64(w) {
			s = uint64(w - 1)
		}
		return uint64(sext64(a[0], w)>>s) & mk, true
	case OpConcat:
		var r uint64
		for _, x := range t.Args {
			v, ok := m.eval(x)
			if !ok {
				return 0, false
			}
			r = r<<uint(x.W) | v
		}
		return r & mk, true
	case OpExtract:
		return (a[0] >> uint(t.Lo)) & mk, true
	case OpZExt:
		return a[0], true
	case OpSExt:
		return uint64(sext64(a[0], t.Args[0].W)) & mk, true
	case OpIte:
		var k int
		if a[0] == 1 {
			k = 1
		} else {
			k = 2
		}
		return m.eval(t.Args[k])
	case OpEq:
		if t.Args[0].W > 64 {
			return 0, false
		}
		return b2u(a[0] == a[1]), true
	case OpULt:
		return b2u(a[0] < a[1]), true
	case OpULe:
		return b2u(a[0] <= a[1]), true
	case OpSLt:
		return b2u(sext64(a[0], t.Args[0].W) < sext64(a[1], t.Args[0].W)), true
	case OpSLe:
		return b2u(sext64(a[0], t.Args[0].W) <= sext64(a[1], t.Args[0].W)), true
	case OpBAnd:
		for _, x := range t.Args {
			v, ok := m.eval(x)
			if !ok {
				return 0, false
			}
			if v == 0 {
				return 0, true
			}
		}
		return 1, true
	case OpBOr:
		for _, x := range t.Args {
			v, ok := m.eval(x)
			if !ok {
				return 0, false
			}
			if v == 1 {
				return 1, true
			}
		}
		return 0, true
	case OpBNot:
		return a[0] ^ 1, true
	}
	return 0, false
}

func mask64(w int) uint64 {
	if w == 0 {
		return 1
	}
	return mask(w)
}

// satisfies reports whether every condition evaluates to true under m.
func (m *Model) satisfies(conds []*Term) bool {
	for i := len(conds) - 1; i >= 0; i-- { // newest literals first: most likely to fail
		v, ok := m.eval(conds[i])
		if !ok || v != 1 {
			return false
		}
	}
	return true
}
