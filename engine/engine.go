package main

import (
	"fmt"
	"sync"
	"go/types"
	"math/big"
	"os"
	"path/filepath"
	"sort"
	"strings"
	"time"

	"golang.org/x/tools/go/packages"
	"golang.org/x/tools/go/ssa"
	"golang.org/x/tools/go/ssa/ssautil"
)

const repoModule = "github.com/datastax/go-cassandra-native-protocol"
const ndPath = repoModule + "/internal/zzverifnd"

type Intrinsic func(x *Exec, caller *frame, fn *ssa.Function, args []Value) Value

type Engine struct {
	prog             *ssa.Program
	pkgs             []*packages.Package
	ssaPkgs          map[string]*ssa.Package
	intrinsics       map[string]Intrinsic
	pkgStubs         map[string]Intrinsic
	globalInit       map[string]func(x *Exec, c *Cell)
	errStringPtr     types.Type
	maxConcreteAlloc int
	initPkgs         map[string]bool
	repoDir          string
	overlay          map[string][]byte
	LoadSeconds      float64
	mergeCache       map[*ssa.Function]bool
	errCtorCache     map[*ssa.Function]bool
	mu               sync.RWMutex
}

// LoadEngine loads repo packages (patterns relative to repoDir) with overlay files.
func LoadEngine(repoDir string, patterns []string, overlay map[string][]byte) (*Engine, error) {
	t0 := time.Now()
	cfg := &packages.Config{
		Dir:     repoDir,
		Mode:    packages.LoadAllSyntax,
		Overlay: overlay,
		Env:     append(os.Environ(), "GOFLAGS=-mod=mod", "GOPROXY=off", "GOSUMDB=off", "GOTOOLCHAIN=local"),
		Tests:   false,
	}
	pkgs, err := packages.Load(cfg, patterns...)
	if err != nil {
		return nil, err
	}
	var errs []string
	packages.Visit(pkgs, nil, func(p *packages.Package) {
		for _, e := range p.Errors {
			errs = append(errs, e.Error())
		}
	})
	if len(errs) > 0 {
		return nil, fmt.Errorf("package errors:\n%s", strings.Join(errs, "\n"))
	}
	prog, _ := ssautil.AllPackages(pkgs, ssa.InstantiateGenerics)
	prog.Build()
	e := &Engine{
		prog: prog, pkgs: pkgs, ssaPkgs: map[string]*ssa.Package{},
		intrinsics: map[string]Intrinsic{}, pkgStubs: map[string]Intrinsic{},
		globalInit:       map[string]func(x *Exec, c *Cell){},
		maxConcreteAlloc: 1 << 18,
		initPkgs:         map[string]bool{},
		repoDir:          repoDir, overlay: overlay,
		mergeCache:       map[*ssa.Function]bool{},
		errCtorCache:     map[*ssa.Function]bool{},
	}
	for _, p := range prog.AllPackages() {
		e.ssaPkgs[p.Pkg.Path()] = p
	}
	if ep := e.ssaPkgs["errors"]; ep != nil {
		e.errStringPtr = types.NewPointer(ep.Type("errorString").Type())
	}
	for path := range e.ssaPkgs {
		if strings.HasPrefix(path, repoModule) {
			e.initPkgs[path] = true
		}
	}
	e.initPkgs["io"] = true
	e.initPkgs["bytes"] = true
	e.initPkgs["io/ioutil"] = true
	e.initPkgs["net"] = false
	registerIntrinsics(e)
	e.LoadSeconds = time.Since(t0).Seconds()
	return e, nil
}

func (e *Engine) Func(pkgPath, name string) *ssa.Function {
	p := e.ssaPkgs[pkgPath]
	if p == nil {
		return nil
	}
	return p.Func(name)
}

// runDeadline: wall-clock limit of the exploration phase of one check (never reported as success when hit)
var runDeadline time.Time

// ---------- results ----------

type AssertRec struct {
	Msg    string            `json:"msg"`
	Status string            `json:"status"` // "discharged","folded","violated","unknown"
	Site   string            `json:"site,omitempty"`
	Model  map[string]string `json:"model,omitempty"`
	Ms     int               `json:"ms,omitempty"`
}

type PathResult struct {
	Decisions   []int             `json:"decisions"`
	End         string            `json:"end"` // "return","panic","unsupported","infeasible","blocked","bound","assume"
	Msg         string            `json:"msg,omitempty"`
	Site        string            `json:"site,omitempty"`
	Asserts     []AssertRec       `json:"asserts,omitempty"`
	Unknowns    int               `json:"unknowns,omitempty"`
	SymBranches int               `json:"sym_branches"`
	Steps       int               `json:"steps"`
	LazyAllocs  []string          `json:"lazy_allocs,omitempty"`
	GoStmts     int               `json:"go_stmts,omitempty"`
	Model       map[string]string `json:"model,omitempty"` // for panic / reach witness
	Notes       []string          `json:"notes,omitempty"`
	Choices     map[string]int    `json:"choices,omitempty"`
	Exports     []PathExport      `json:"-"`
	Merges      int               `json:"merges,omitempty"`
	IfConversions int             `json:"if_conversions,omitempty"`
	FreeSplits  int               `json:"free_splits,omitempty"`
	ModelHits   int               `json:"model_hits,omitempty"`
	MergeAborts int               `json:"merge_aborts,omitempty"`
	Outputs     map[string]string `json:"outputs,omitempty"`
	Funcs       map[*ssa.Function]int `json:"-"`
}

type HarnessRun struct {
	Name       string
	Fn         *ssa.Function
	AllocBound int
	MaxSymBranches int
	BigBits    int
	MaxSteps   int
	MaxPaths   int
	Pins       map[string]*big.Int // pinned nd inputs (translator validation / replay in engine)
	PinChoices map[string]int
	onGo       func(x *Exec, fn Value, args []Value)
	mapOrder   func(x *Exec, keys []*MapEntry) []*MapEntry
	TrackWrites bool
	KeepPaths  bool
	PanicsAreViolations bool
}

type HarnessResult struct {
	Name        string        `json:"name"`
	Paths       int           `json:"paths"`
	Returned    int           `json:"returned"`
	Panics      int           `json:"panics"`
	Infeasible  int           `json:"infeasible"`
	Unsupported int           `json:"unsupported"`
	Blocked     int           `json:"blocked"`
	BoundHit    int           `json:"bound_hit"`
	AssertsDischarged int     `json:"asserts_discharged"`
	AssertsFolded     int     `json:"asserts_folded"`
	AssertsViolated   int     `json:"asserts_violated"`
	AssertsUnknown    int     `json:"asserts_unknown"`
	Unknowns    int           `json:"unknowns"`
	Steps       int           `json:"steps"`
	SymBranches int           `json:"sym_branches"`
	Queries     int           `json:"queries"`
	SolverSec   float64       `json:"solver_s"`
	WallSec     float64       `json:"wall_s"`
	Violations  []*PathResult `json:"violations,omitempty"`
	PanicPaths  []*PathResult `json:"panic_paths,omitempty"`
	Problems    []*PathResult `json:"problems,omitempty"` // unsupported / bound / blocked
	ReachModel  map[string]string `json:"reach_model,omitempty"`
	ReachOK     bool          `json:"reach_ok"`
	PathsTruncated bool       `json:"paths_truncated,omitempty"`
	DeadlineHit    bool       `json:"deadline_hit,omitempty"`
	AllPaths    []*PathResult `json:"all_paths,omitempty"`
	Funcs       map[string]int `json:"-"`
	LazyAllocSites []string   `json:"lazy_alloc_sites,omitempty"`
	Exports     []PathExport  `json:"-"`
	Ctx         *Ctx          `json:"-"`
}

// PathExport is a path condition exported by a harness (nd.ExportPC) for post-processing.
type PathExport struct {
	Name string
	PC   []*Term
}

// Worker owns a term context and a solver.
type Worker struct {
	eng    *Engine
	ctx    *Ctx
	solver *Solver
	pool   []*Model // models found while exploring the current harness
}

func (w *Worker) addModel(m map[string]*big.Int) {
	if _, bad := m["!incomplete"]; bad {
		return
	}
	mod := &Model{vals: map[int]uint64{}, memo: map[int]evalRes{}}
	for _, v := range w.ctx.Vars {
		if v.W > 64 {
			continue
		}
		if val, ok := m[fmt.Sprintf("%s!%d", v.Name, v.W)]; ok {
			mod.vals[v.ID] = val.Uint64()
		}
	}
	w.pool = append(w.pool, mod)
	if len(w.pool) > 48 {
		w.pool = w.pool[len(w.pool)-48:]
	}
}

func NewWorker(e *Engine, timeoutMs int) *Worker {
	ctx := NewCtx()
	return &Worker{eng: e, ctx: ctx, solver: NewSolver(ctx, timeoutMs)}
}

func (w *Worker) Close() { w.solver.Close() }

func modelStr(m map[string]*big.Int) map[string]string {
	out := map[string]string{}
	for k, v := range m {
		out[k] = v.String()
	}
	return out
}

// Explore runs all paths of harness h.
func (w *Worker) Explore(h *HarnessRun) *HarnessResult {
	t0 := time.Now()
	q0, s0 := w.solver.Stats.Queries, w.solver.Stats.WallNs
	hr := &HarnessResult{Name: h.Name, Funcs: map[string]int{}, Ctx: w.ctx}
	if h.MaxSteps == 0 {
		h.MaxSteps = 2000000
	}
	if h.MaxPaths == 0 {
		h.MaxPaths = 200000
	}
	var prefix []choice
	lazy := map[string]bool{}
	w.pool = nil
	for {
		pr, trace := w.runPath(h, prefix)
		hr.Paths++
		hr.Steps += pr.Steps
		hr.SymBranches += pr.SymBranches
		hr.Unknowns += pr.Unknowns
		for _, s := range pr.LazyAllocs {
			lazy[s] = true
		}
		hr.Exports = append(hr.Exports, pr.Exports...)
		for fn, n := range pr.Funcs {
			if name := w.eng.encodedName(fn); name != "" {
				hr.Funcs[name] += n
			}
		}
		pr.Funcs = nil
		viol := false
		for _, a := range pr.Asserts {
			switch a.Status {
			case "discharged":
				hr.AssertsDischarged++
			case "folded":
				hr.AssertsFolded++
			case "violated":
				hr.AssertsViolated++
				viol = true
			case "unknown":
				hr.AssertsUnknown++
			}
		}
		if viol {
			hr.Violations = append(hr.Violations, pr)
		}
		switch pr.End {
		case "return":
			hr.Returned++
			if !hr.ReachOK && pr.Model != nil {
				hr.ReachOK = true
				hr.ReachModel = pr.Model
			}
		case "panic":
			hr.Panics++
			if len(hr.PanicPaths) < 50 {
				hr.PanicPaths = append(hr.PanicPaths, pr)
			}
		case "infeasible", "assume":
			hr.Infeasible++
		case "unsupported":
			hr.Unsupported++
			if len(hr.Problems) < 20 {
				hr.Problems = append(hr.Problems, pr)
			}
		case "blocked":
			hr.Blocked++
			if len(hr.Problems) < 20 {
				hr.Problems = append(hr.Problems, pr)
			}
		case "bound":
			hr.BoundHit++
			if len(hr.Problems) < 20 {
				hr.Problems = append(hr.Problems, pr)
			}
		}
		if h.KeepPaths {
			hr.AllPaths = append(hr.AllPaths, pr)
		}
		if os.Getenv("GOSYM_PATHLOG") != "" && (hr.Paths%500 == 0 || hr.Paths < 40) {
			fmt.Fprintf(os.Stderr, "paths=%d last: end=%s msg=%s site=%s decisions=%v choices=%v model=%v\n", hr.Paths, pr.End, pr.Msg, pr.Site, pr.Decisions, pr.Choices, pr.Model)
		}
		// next prefix
		i := len(trace) - 1
		for i >= 0 && len(trace[i].Alts) == 0 {
			i--
		}
		if i < 0 {
			break
		}
		np := make([]choice, i+1)
		copy(np, trace[:i])
		np[i] = choice{Taken: trace[i].Alts[0], Alts: append([]int{}, trace[i].Alts[1:]...)}
		prefix = np
		if hr.Paths >= h.MaxPaths {
			hr.PathsTruncated = true
			break
		}
		if !runDeadline.IsZero() && time.Now().After(runDeadline) {
			hr.PathsTruncated = true
			hr.DeadlineHit = true
			break
		}
	}
	for s := range lazy {
		hr.LazyAllocSites = append(hr.LazyAllocSites, s)
	}
	sort.Strings(hr.LazyAllocSites)
	hr.Queries = w.solver.Stats.Queries - q0
	hr.SolverSec = float64(w.solver.Stats.WallNs-s0) / 1e9
	hr.WallSec = time.Since(t0).Seconds()
	return hr
}

func (w *Worker) runPath(h *HarnessRun, prefix []choice) (pr *PathResult, trace []choice) {
	x := &Exec{
		eng: w.eng, ctx: w.ctx, solver: w.solver, w: w,
		decisions: prefix,
		globals:   map[*ssa.Global]*Cell{},
		symCount:  map[string]int{},
		maxSteps:  h.MaxSteps,
		h:         h,
		res:       &PathResult{Choices: map[string]int{}},
		funcs:     map[*ssa.Function]int{},
	}
	x.trackWrite = false
	pr = x.res
	defer func() {
		trace = x.trace
		for _, c := range x.trace {
			pr.Decisions = append(pr.Decisions, c.Taken)
		}
		pr.Steps = x.steps
		pr.Notes = x.notes
		pr.Funcs = x.funcs
		if r := recover(); r != nil {
			switch e := r.(type) {
			case pathEnd:
				pr.End, pr.Msg, pr.Site = e.Kind, e.Msg, e.Site
			case *goPanic:
				pr.End, pr.Msg, pr.Site = "panic", e.Msg, e.Site
				// model for the panic path
				if res, m := x.solver.Check(x.pc, true); res == Sat {
					pr.Model = x.witness(m)
				} else if res == Unknown {
					pr.Unknowns++
				}
			default:
				pr.End = "unsupported"
				pr.Msg = fmt.Sprintf("engine panic: %v", r)
				pr.Site = x.site()
				if os.Getenv("GOSYM_TRACE") != "" {
					panic(r)
				}
			}
		}
	}()
	x.runInits()
	x.callFunction(h.Fn, nil, nil)
	pr.End = "return"
	if res, m := x.solver.Check(x.pc, true); res == Sat {
		pr.Model = x.witness(m)
	} else if res == Unknown {
		pr.Unknowns++
	}
	return
}

// witness converts a solver model into the named nd inputs of this path plus choices.
func (x *Exec) witness(m map[string]*big.Int) map[string]string {
	out := map[string]string{}
	for _, in := range x.inputs {
		switch in.Kind {
		case "choice":
			out[in.Name] = fmt.Sprint(in.Val)
		default:
			if v, ok := m[fmt.Sprintf("%s!%d", in.Name, in.W)]; ok {
				out[in.Name] = v.String()
			} else {
				out[in.Name] = "0"
			}
		}
	}
	return out
}

func (x *Exec) runInits() {
	// run init of the harness function's package; its dependencies are reached through the init calls
	// (non-whitelisted package inits are skipped in the init intrinsic).
	if x.h.Fn.Pkg == nil {
		return
	}
	x.initDone = map[*ssa.Package]bool{}
	for _, p := range []string{"io"} {
		if sp := x.eng.ssaPkgs[p]; sp != nil {
			x.runPkgInit(sp)
		}
	}
	x.runPkgInit(x.h.Fn.Pkg)
}

func (x *Exec) runPkgInit(p *ssa.Package) {
	if x.initDone[p] {
		return
	}
	x.initDone[p] = true
	if !x.eng.initPkgs[p.Pkg.Path()] {
		return
	}
	initFn := p.Func("init")
	if initFn == nil || initFn.Blocks == nil {
		return
	}
	x.inInit++
	defer func() { x.inInit-- }()
	fr := &frame{fn: initFn, env: map[ssa.Value]Value{}}
	x.run(fr)
}

// SourceFileOf returns repo-relative file of a function.
func (e *Engine) SourceFileOf(fn *ssa.Function) string {
	p := e.prog.Fset.Position(fn.Pos())
	rel, err := filepath.Rel(e.repoDir, p.Filename)
	if err != nil {
		return p.Filename
	}
	return rel
}

// encodedName returns "pkg.Func (file)" for functions of the repository under test whose real SSA was interpreted
// (harness functions and generated verification files are left out); "" otherwise.
func (e *Engine) encodedName(fn *ssa.Function) string {
	var pkg *ssa.Package
	if fn.Pkg != nil {
		pkg = fn.Pkg
	} else if fn.Origin() != nil {
		pkg = fn.Origin().Pkg
	} else if fn.Parent() != nil {
		pkg = fn.Parent().Pkg
	}
	if pkg == nil || !strings.HasPrefix(pkg.Pkg.Path(), repoModule) {
		return ""
	}
	pos := e.prog.Fset.Position(fn.Pos())
	base := filepath.Base(pos.Filename)
	if strings.HasPrefix(base, "zz_verif") || strings.Contains(pkg.Pkg.Path(), "zzverifnd") || pos.Filename == "" {
		return ""
	}
	return strings.ReplaceAll(fn.String(), repoModule+"/", "") + " [" + strings.TrimPrefix(strings.TrimPrefix(pos.Filename, e.repoDir), "/") + "]"
}
