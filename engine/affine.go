package main

// GF(2)-affine normal forms of bit-vector terms. A bit is an affine form: a constant XOR a set of basis
// variables (bits of the declared inputs). CRC computations are affine; converting the acceptance condition of a
// decoder into this form yields the parity-check system the error-detection queries of C07 are asked about.
// Conversion fails (ok=false) on any operation that is not affine, so nothing is ever assumed to be linear.

import (
	"fmt"
	"math/big"
	"sort"
)

type affBit struct {
	c    bool
	vars *big.Int // bitset over basis variables
}

type affVec []affBit // index 0 = least significant bit

type affCtx struct {
	basis   map[string]int // "var!w:bit" -> index
	names   []string
	memo    map[int]affVec
	memoB   map[int]*affBit
	failWhy string
	parent  *affCtx
}

func newAffCtx() *affCtx {
	return &affCtx{basis: map[string]int{}, memo: map[int]affVec{}, memoB: map[int]*affBit{}}
}

func (a *affCtx) varBit(name string, w, bit int) affBit {
	key := fmt.Sprintf("%s!%d:%d", name, w, bit)
	root := a
	for root.parent != nil {
		root = root.parent
	}
	idx, ok := root.basis[key]
	if !ok {
		idx = len(root.names)
		root.basis[key] = idx
		root.names = append(root.names, key)
	}
	v := new(big.Int)
	v.SetBit(v, idx, 1)
	return affBit{vars: v}
}

func xorBit(x, y affBit) affBit {
	return affBit{c: x.c != y.c, vars: new(big.Int).Xor(x.vars, y.vars)}
}

func constBit(b bool) affBit { return affBit{c: b, vars: new(big.Int)} }

func (b affBit) isConst() bool { return b.vars.Sign() == 0 }

func (a *affCtx) fail(why string) (affVec, bool) {
	if a.failWhy == "" {
		a.failWhy = why
	}
	if a.parent != nil && a.parent.failWhy == "" {
		a.parent.failWhy = why
	}
	return nil, false
}

// vec converts a bit-vector term.
func (a *affCtx) vec(t *Term) (affVec, bool) {
	if v, ok := a.memo[t.ID]; ok {
		return v, true
	}
	if t.W == 0 {
		b, ok := a.boolBit(t)
		if !ok {
			return nil, false
		}
		return affVec{*b}, true
	}
	var out affVec
	switch t.Op {
	case OpConst:
		out = make(affVec, t.W)
		v := t.BigVal()
		for i := range out {
			out[i] = constBit(v.Bit(i) == 1)
		}
	case OpVar:
		out = make(affVec, t.W)
		for i := range out {
			out[i] = a.varBit(t.Name, t.W, i)
		}
	case OpXor:
		x, ok1 := a.vec(t.Args[0])
		y, ok2 := a.vec(t.Args[1])
		if !ok1 || !ok2 {
			return nil, false
		}
		out = make(affVec, t.W)
		for i := range out {
			out[i] = xorBit(x[i], y[i])
		}
	case OpNot:
		x, ok := a.vec(t.Args[0])
		if !ok {
			return nil, false
		}
		out = make(affVec, t.W)
		for i := range out {
			out[i] = xorBit(x[i], constBit(true))
		}
	case OpAnd, OpOr:
		x, ok1 := a.vec(t.Args[0])
		y, ok2 := a.vec(t.Args[1])
		if !ok1 || !ok2 {
			return nil, false
		}
		out = make(affVec, t.W)
		for i := range out {
			switch {
			case y[i].isConst():
				out[i] = andOrConst(t.Op, x[i], y[i].c)
			case x[i].isConst():
				out[i] = andOrConst(t.Op, y[i], x[i].c)
			default:
				return a.fail("and/or of two non-constant bits")
			}
		}
	case OpConcat:
		for i := len(t.Args) - 1; i >= 0; i-- {
			x, ok := a.vec(t.Args[i])
			if !ok {
				return nil, false
			}
			out = append(out, x...)
		}
	case OpExtract:
		x, ok := a.vec(t.Args[0])
		if !ok {
			return nil, false
		}
		out = append(affVec{}, x[t.Lo:t.Hi+1]...)
	case OpZExt:
		x, ok := a.vec(t.Args[0])
		if !ok {
			return nil, false
		}
		out = append(affVec{}, x...)
		for i := 0; i < t.Hi; i++ {
			out = append(out, constBit(false))
		}
	case OpSExt:
		x, ok := a.vec(t.Args[0])
		if !ok {
			return nil, false
		}
		out = append(affVec{}, x...)
		for i := 0; i < t.Hi; i++ {
			out = append(out, x[len(x)-1])
		}
	case OpIte:
		cb, ok := a.boolBit(t.Args[0])
		if !ok {
			return nil, false
		}
		x, ok1 := a.vec(t.Args[1])
		y, ok2 := a.vec(t.Args[2])
		if !ok1 || !ok2 {
			return nil, false
		}
		out = make(affVec, t.W)
		for i := range out {
			d := xorBit(x[i], y[i])
			switch {
			case cb.isConst():
				if cb.c {
					out[i] = x[i]
				} else {
					out[i] = y[i]
				}
			case !d.isConst():
				return a.fail("ite whose arms differ by a non-constant bit")
			case d.c:
				out[i] = xorBit(y[i], *cb)
			default:
				out[i] = y[i]
			}
		}
	default:
		return a.fail("non-affine operation " + opNames[t.Op] + fmt.Sprint(t.Op))
	}
	a.memo[t.ID] = out
	return out, true
}

func andOrConst(op Op, x affBit, c bool) affBit {
	if op == OpAnd {
		if c {
			return x
		}
		return constBit(false)
	}
	if c {
		return constBit(true)
	}
	return x
}

// boolBit converts a Boolean term that is a single affine bit: a bit test, or its negation.
func (a *affCtx) boolBit(t *Term) (*affBit, bool) {
	if b, ok := a.memoB[t.ID]; ok {
		return b, true
	}
	var res affBit
	switch t.Op {
	case OpConst:
		res = constBit(t.Val == 1)
	case OpVar:
		res = a.varBit(t.Name, 0, 0)
	case OpBNot:
		b, ok := a.boolBit(t.Args[0])
		if !ok {
			return nil, false
		}
		res = xorBit(*b, constBit(true))
	case OpEq:
		// equality of two vectors is one affine bit only when exactly one bit position can differ
		x, ok1 := a.vec(t.Args[0])
		y, ok2 := a.vec(t.Args[1])
		if !ok1 || !ok2 {
			return nil, false
		}
		var diff []affBit
		for i := range x {
			d := xorBit(x[i], y[i])
			if d.isConst() {
				if d.c {
					res = constBit(false)
					a.memoB[t.ID] = &res
					return &res, true
				}
				continue
			}
			diff = append(diff, d)
		}
		switch len(diff) {
		case 0:
			res = constBit(true)
		case 1:
			res = xorBit(diff[0], constBit(true)) // equal <=> difference bit is 0
		default:
			a.fail("equality over more than one non-constant bit used as a condition")
			return nil, false
		}
	default:
		a.fail("non-affine condition " + fmt.Sprint(t.Op))
		return nil, false
	}
	a.memoB[t.ID] = &res
	return &res, true
}

// equations converts a conjunction of equalities into affine equations (each must be 0).
func (a *affCtx) equations(conds []*Term) ([]affBit, bool) {
	var eqs []affBit
	var walk func(t *Term) bool
	walk = func(t *Term) bool {
		switch t.Op {
		case OpBAnd:
			for _, x := range t.Args {
				if !walk(x) {
					return false
				}
			}
			return true
		case OpEq:
			x, ok1 := a.vec(t.Args[0])
			y, ok2 := a.vec(t.Args[1])
			if !ok1 || !ok2 {
				return false
			}
			for i := range x {
				eqs = append(eqs, xorBit(x[i], y[i]))
			}
			return true
		case OpConst:
			if t.IsTrue() {
				return true
			}
		}
		b, ok := a.boolBit(t)
		if !ok {
			return false
		}
		eqs = append(eqs, xorBit(*b, constBit(true))) // literal must be true
		return true
	}
	for _, c := range conds {
		if !walk(c) {
			return nil, false
		}
	}
	// drop trivial equations
	var out []affBit
	for _, e := range eqs {
		if e.isConst() {
			if e.c {
				a.fail("acceptance condition is unsatisfiable (constant false equation)")
				return nil, false
			}
			continue
		}
		out = append(out, e)
	}
	return out, true
}

func (a *affCtx) sortedNames() []string {
	n := append([]string{}, a.names...)
	sort.Strings(n)
	return n
}

// newAffCtxShared shares the basis and memo tables of a (so that all literals use one variable numbering) but keeps
// its own failure note.
func newAffCtxShared(a *affCtx) *affCtx {
	return &affCtx{basis: a.basis, names: a.names, memo: a.memo, memoB: a.memoB, parent: a}
}
