package main

import (
	"fmt"
	"go/types"
	"strings"

	"golang.org/x/tools/go/ssa"
)

// Value domain. Scalars are *Term. Pointers are *Cell (concrete). See DESIGN 2.2.
type Value interface{}

// Alloc identifies one allocation (Alloc/new/make/composite) on a path.
type Alloc struct {
	ID    int
	Site  string // function + instruction position
	Epoch int    // harness-defined epoch at allocation time (nd.Epoch())
	Glob  string // non-empty for package-level variables
	Kind  string
}

type Cell struct {
	V Value
	A *Alloc
}

type Struct []Cell
type Array []Cell

// Slice: go slice over cells (shares backing array). Nil distinguishes nil from empty.
type Slice struct {
	C    []Cell
	Nil  bool
	Lazy *LazyArr // symbolic-length slice (see lazy.go)
}

type Str struct {
	B []*Term // each BV8
}

type MapEntry struct {
	K, V Value
}
type Map struct {
	E []*MapEntry
	A *Alloc
}

type Iface struct {
	T types.Type // nil => nil interface
	V Value
}

type Closure struct {
	Fn  *ssa.Function
	Env []Value
}

type BoundMethod struct { // intrinsic-bound method value
	Name string
	Recv Value
}

type Tuple []Value

type Chan struct {
	Buf    []Value
	Cap    int
	Closed bool
	A      *Alloc
}

// ErrObj is an opaque error created by fmt.Errorf / errors.New.
type ErrObj struct {
	Msg  string
	Wrap Value // wrapped error (Iface) for %w
	ID   int
}

func (x *Exec) strConst(s string) *Str {
	b := make([]*Term, len(s))
	for i := 0; i < len(s); i++ {
		b[i] = x.ctx.BV(uint64(s[i]), 8)
	}
	return &Str{B: b}
}

func (s *Str) Concrete() (string, bool) {
	var sb strings.Builder
	for _, t := range s.B {
		if !t.IsConst() {
			return "", false
		}
		sb.WriteByte(byte(t.Val))
	}
	return sb.String(), true
}

func widthOfBasic(b *types.Basic) int {
	switch b.Kind() {
	case types.Bool, types.UntypedBool:
		return 0
	case types.Int8, types.Uint8:
		return 8
	case types.Int16, types.Uint16:
		return 16
	case types.Int32, types.Uint32, types.Float32:
		return 32
	case types.Int, types.Uint, types.Int64, types.Uint64, types.Uintptr, types.Float64, types.UntypedInt, types.UntypedRune, types.UntypedFloat:
		return 64
	}
	return -1
}

func isSigned(t types.Type) bool {
	b, ok := t.Underlying().(*types.Basic)
	return ok && b.Info()&types.IsInteger != 0 && b.Info()&types.IsUnsigned == 0
}
func isFloat(t types.Type) bool {
	b, ok := t.Underlying().(*types.Basic)
	return ok && b.Info()&types.IsFloat != 0
}
func isString(t types.Type) bool {
	b, ok := t.Underlying().(*types.Basic)
	return ok && b.Info()&types.IsString != 0
}
func isInteger(t types.Type) bool {
	b, ok := t.Underlying().(*types.Basic)
	return ok && b.Info()&types.IsInteger != 0
}

// zero returns the zero value of type t; every cell created is tagged with alloc a.
func (x *Exec) zero(t types.Type, a *Alloc) Value {
	switch u := t.Underlying().(type) {
	case *types.Basic:
		if u.Kind() == types.String || u.Kind() == types.UntypedString {
			return &Str{}
		}
		if u.Kind() == types.UnsafePointer {
			return (*Cell)(nil)
		}
		if u.Kind() == types.UntypedNil {
			return nil
		}
		w := widthOfBasic(u)
		if w < 0 {
			panic(x.unsupported("zero of basic " + u.String()))
		}
		if w == 0 {
			return x.ctx.False
		}
		return x.ctx.BV(0, w)
	case *types.Pointer:
		return (*Cell)(nil)
	case *types.Struct:
		s := make(Struct, u.NumFields())
		for i := range s {
			s[i] = Cell{V: x.zero(u.Field(i).Type(), a), A: a}
		}
		return s
	case *types.Array:
		n := int(u.Len())
		s := make(Array, n)
		for i := range s {
			s[i] = Cell{V: x.zero(u.Elem(), a), A: a}
		}
		return s
	case *types.Slice:
		return Slice{Nil: true}
	case *types.Map:
		return (*Map)(nil)
	case *types.Interface:
		return Iface{}
	case *types.Signature:
		return nil
	case *types.Chan:
		return (*Chan)(nil)
	case *types.Tuple:
		tu := make(Tuple, u.Len())
		for i := range tu {
			tu[i] = x.zero(u.At(i).Type(), a)
		}
		return tu
	}
	panic(x.unsupported(fmt.Sprintf("zero of %T %v", t, t)))
}

// copyVal copies value-semantic aggregates (structs, arrays).
func copyVal(v Value) Value {
	switch v := v.(type) {
	case Struct:
		n := make(Struct, len(v))
		for i := range v {
			n[i] = Cell{V: copyVal(v[i].V), A: v[i].A}
		}
		return n
	case Array:
		n := make(Array, len(v))
		for i := range v {
			n[i] = Cell{V: copyVal(v[i].V), A: v[i].A}
		}
		return n
	}
	return v
}

// storeInto writes v into cell c preserving the identity of nested cells.
func storeInto(c *Cell, v Value) {
	switch nv := v.(type) {
	case Struct:
		if ov, ok := c.V.(Struct); ok && len(ov) == len(nv) {
			for i := range nv {
				storeInto(&ov[i], nv[i].V)
			}
			return
		}
		c.V = copyVal(nv)
		// re-tag
		retag(c.V, c.A)
		return
	case Array:
		if ov, ok := c.V.(Array); ok && len(ov) == len(nv) {
			for i := range nv {
				storeInto(&ov[i], nv[i].V)
			}
			return
		}
		c.V = copyVal(nv)
		retag(c.V, c.A)
		return
	}
	c.V = v
}

func retag(v Value, a *Alloc) {
	switch v := v.(type) {
	case Struct:
		for i := range v {
			v[i].A = a
			retag(v[i].V, a)
		}
	case Array:
		for i := range v {
			v[i].A = a
			retag(v[i].V, a)
		}
	}
}

func (x *Exec) newAlloc(site, kind string) *Alloc {
	x.allocSeq++
	return &Alloc{ID: x.allocSeq, Site: site, Epoch: x.epoch, Kind: kind}
}

// newCell allocates a fresh cell holding the zero value of t.
func (x *Exec) newCell(t types.Type, site string) *Cell {
	a := x.newAlloc(site, "new")
	c := &Cell{A: a}
	c.V = x.zero(t, a)
	return c
}

func (x *Exec) makeSlice(elem types.Type, n, capn int, site string) Slice {
	a := x.newAlloc(site, "make")
	cs := make([]Cell, capn)
	for i := range cs {
		cs[i] = Cell{V: x.zero(elem, a), A: a}
	}
	return Slice{C: cs[:n]}
}

func (x *Exec) bytesToSlice(bs []*Term, site string) Slice {
	a := x.newAlloc(site, "bytes")
	cs := make([]Cell, len(bs))
	for i := range cs {
		cs[i] = Cell{V: bs[i], A: a}
	}
	return Slice{C: cs}
}

func sliceBytes(s Slice) []*Term {
	out := make([]*Term, len(s.C))
	for i := range s.C {
		out[i] = s.C[i].V.(*Term)
	}
	return out
}

func describe(v Value) string {
	switch v := v.(type) {
	case nil:
		return "nil"
	case *Term:
		s := v.String()
		if len(s) > 80 {
			s = s[:80] + "..."
		}
		return s
	case *Str:
		if cs, ok := v.Concrete(); ok {
			return fmt.Sprintf("%q", cs)
		}
		return fmt.Sprintf("str[%d]", len(v.B))
	case *Cell:
		if v == nil {
			return "nilptr"
		}
		return fmt.Sprintf("&%s", describe(v.V))
	case Struct:
		var parts []string
		for _, c := range v {
			parts = append(parts, describe(c.V))
		}
		return "{" + strings.Join(parts, ", ") + "}"
	case Array:
		return fmt.Sprintf("array[%d]", len(v))
	case Slice:
		if v.Nil {
			return "nilslice"
		}
		return fmt.Sprintf("slice[%d]", len(v.C))
	case Iface:
		if v.T == nil {
			return "nilif"
		}
		return fmt.Sprintf("(%v)%s", v.T, describe(v.V))
	case *ErrObj:
		return "err(" + v.Msg + ")"
	case Tuple:
		var parts []string
		for _, c := range v {
			parts = append(parts, describe(c))
		}
		return "(" + strings.Join(parts, ", ") + ")"
	}
	return fmt.Sprintf("%T", v)
}
