package main

func init() {
	register(&PropCheck{
		ID:    "C03",
		Pkgs:  []string{"primitive"},
		FnRe:  `^VerifC03_`,
		Level: "model_checking",
		Rule:  "one harness per notation / message kind / version; a case is a feasible path of the harness (all scalar inputs symbolic); non-trivial = at least one symbolic branch or solver-discharged assertion",
	})
}
