package main

func init() {
	register(&PropCheck{
		ID:    "C03",
		Pkgs:  []string{"primitive"},
		FnRe:  `^VerifC03_`,
		Level: "model_checking",
		Rule:  "one harness per notation / message kind / version; a case is a feasible path of the harness (all scalar inputs symbolic); non-trivial = at least one symbolic branch or solver-discharged assertion",
	})
	register(&PropCheck{
		ID:    "C19",
		Pkgs:  []string{"primitive"},
		FnRe:  `^VerifC19_`,
		Level: "model_checking",
		Gen:   genC19,
		Rule:  "one harness per (enum type, method) generated from the constants found by go/types in the current tree, plus hand-written capability-table harnesses; a case is a feasible path; the code value is symbolic over its whole domain",
	})
}
