package main

func init() {
	register(&PropCheck{
		ID:    "C03",
		Pkgs:  []string{"primitive", "frame"},
		FnRe:  `^VerifC03_`,
		Level: "model_checking",
		Gen:   func(c *CheckCtx) error { return genFrameHarnesses(c, "VerifC03_Len", `verifRoundTrip(%q, %s, verifModeC03)`) },
		Rule:  "one harness per notation / message kind / version; a case is a feasible path of the harness (all scalar inputs symbolic); non-trivial = at least one symbolic branch or solver-discharged assertion",
	})
	register(&PropCheck{
		ID:    "C19",
		Pkgs:  []string{"primitive"},
		FnRe:  `^VerifC19_`,
		Level: "model_checking",
		Gen:   genC19,
		Rule:  "one harness per (enum type, method) generated from the constants found by go/types in the current tree, plus hand-written capability-table harnesses; a case is a feasible path; the code value is symbolic over its whole domain",
	})
}

func init() {
	register(&PropCheck{
		ID: "C01", Pkgs: []string{"frame"}, FnRe: `^VerifC01_`, Level: "model_checking",
		Gen: func(c *CheckCtx) error {
			if err := genFrameHarnesses(c, "VerifC01_RT", `verifRoundTrip(%q, %s, verifModeC01)`); err != nil {
				return err
			}
			// compression ratios the real libraries reach on these few-byte bodies are close to 1:1; the high-ratio
			// regime (where lz4.decompress gave up at 8:1) is C08's subject, with inputs long enough to replay natively
			if err := genFrameHarnesses(c, "VerifC01_LZ4", `verifRoundTripCompressed(%q, %s, 0, 2)`); err != nil {
				return err
			}
			return genFrameHarnesses(c, "VerifC01_Snappy", `verifRoundTripCompressed(%q, %s, 1, 2)`)
		},
		Rule: "one harness per (message kind, protocol version); a case is a feasible path = one shape (subset of optional parts, dynamic types, lengths) with every scalar field and byte symbolic; non-trivial = has symbolic branches or solver-discharged assertions",
	})
}

func init() {
	register(&PropCheck{
		ID: "C02", Pkgs: []string{"frame"}, FnRe: `^VerifC02_`, Level: "model_checking",
		Gen:  func(c *CheckCtx) error { return genFrameHarnesses(c, "VerifC02_Spec", `verifConformance(%q, %s)`) },
		Rule: "one harness per (message kind, version): bytes of the real encoder vs. an independent reference encoder written from the specs, both executed symbolically on the same arbitrary version-valid frame; plus the header rejection harness over all 2^72 header byte strings",
	})
}

func init() {
	register(&PropCheck{
		ID: "C05", Pkgs: []string{"frame"}, FnRe: `^VerifC05_`, Level: "model_checking",
		Gen: func(c *CheckCtx) error {
			if err := genFrameHarnesses(c, "VerifC05_OpsLZ4", `verifPartialOpsAlg(%q, %s, 0)`); err != nil {
				return err
			}
			if c.Tier == "thorough" {
				if err := genFrameHarnesses(c, "VerifC05_OpsSnappy", `verifPartialOpsAlg(%q, %s, 1)`); err != nil {
					return err
				}
			}
			return genFrameHarnesses(c, "VerifC05_Ops", `verifPartialOps(%q, %s)`)
		},
		Rule: "one harness per (message kind, version): every raw/partial codec path on the bytes of an arbitrary version-valid frame followed by an arbitrary suffix; plus re-encode harnesses on fully symbolic inputs",
	})
}

func init() {
	register(&PropCheck{
		ID: "C08", Pkgs: []string{"compression/lz4", "compression/snappy", "segment"}, FnRe: `^VerifC08_`, Level: "model_checking",
		Rule: "one harness per (algorithm, input length, compressed-length policy); content bytes symbolic; compressed length chosen by the contract stub (all allowed values for short inputs, extreme ratios for long ones)",
		Assume: []string{"lz4.CompressBlock/UncompressBlock and snappy.Encode/Decode meet their documented contract (lossless, length-carrying, 1 <= k <= bound, never panic); the stubs are validated against the real libraries natively on every run"},
	})
}

func init() {
	register(&PropCheck{
		ID: "C20", Pkgs: []string{"frame", "message"}, FnRe: `^VerifC20_`, Level: "model_checking",
		Gen:  genEqFile,
		Rule: "mutator histories: one harness per (message kind in {STARTUP, OPTIONS, READY, QUERY, VOID, ERROR}, version), every sequence of k mutator calls with every argument class is a path; STARTUP accessors: one inductive harness per setter from an arbitrary option map, plus setter sequences",
	})
}

func init() {
	register(&PropCheck{
		ID: "C06", Pkgs: []string{"segment"}, FnRe: `^VerifC06_`, Level: "model_checking",
		Rule: "header harnesses over all 2^18 / 2^35 header values; CRC-24 equivalence with a reference over all 2^24 / 2^40 inputs; whole segments for payload lengths 0..8 (thorough 0..24) with symbolic content and every compressed length the LZ4 contract allows; refusal at 131072",
	})
}

func init() {
	register(&PropCheck{
		ID: "C07", Pkgs: []string{"segment"}, FnRe: `^VerifC07_`, Level: "model_checking",
		Post: c07Post,
		Rule: "the decoder's acceptance condition on fully symbolic header / payload bytes is extracted by symbolic execution, normalised to a GF(2) parity-check system (fails closed if any operation is not affine), and one solver query per error class asks for a non-zero error pattern in the kernel; when the decoder accepts through several paths (a union of affine spaces) every ordered pair of paths is checked as well: the input is eliminated over GF(2) and the solver is asked for an error pattern of the class satisfying the residual affine system; such a counterexample is replayed with the input the elimination yields",
		Assume: []string{"composition step: for an affine acceptance condition A.x=c, x and x^e are both accepted only if A.e=0 (one line of linear algebra, not a solver query)"},
	})
}

func init() {
	register(&PropCheck{
		ID: "C17", Pkgs: []string{"frame", "segment"}, FnRe: `^VerifC17_`, Level: "model_checking",
		Gen:  genC17,
		Rule: "one harness per type with a DeepCopy method found by go/types in the current tree; a case is one shape (all sites populated with one / two elements, all nil, all empty, two elements with a nil entry after / before a non-nil one in every collection of nil-able elements, each single site nil or empty) with every scalar symbolic; equality is reflect.DeepEqual-like and generated from the type; separation is computed on the engine's concrete heap",
	})
}

func init() {
	register(&PropCheck{
		ID: "C18", Pkgs: []string{"frame", "segment", "datacodec"}, FnRe: `^VerifC18_`, Level: "other", NativeRace: true,
		Explain: "sufficient condition decided by symbolic execution: the codecs are stateless after construction. Every explored path of two codec calls on distinct arguments through one shared codec is checked for writes (stores, map updates, buffer appends) to memory that is shared between the calls, package-level, or pre-existing and not reachable from the call's own arguments. No shared writes => concurrent calls cannot race with each other and return what sequential calls return. Interleavings themselves are not explored (the technique has no scheduler model); third-party compressor internals are stubs.",
		Rule: "write-footprint (frame condition) of codec calls: every store, map update and buffer append executed by two codec calls on distinct arguments through one shared codec is checked, on every explored path, to target memory allocated by the call or reachable only from its own arguments - never the shared codec, never a package-level variable; natively the same calls run in parallel under the race detector",
	})
}

func init() {
	register(&PropCheck{
		ID: "C13", Pkgs: []string{"datacodec"}, FnRe: `^VerifC13_`, Level: "model_checking",
		Gen: genC13,
		Rule: "one harness per numeric conversion helper found in datacodec/conversions.go and per (CQL numeric codec, Go type, direction); the source value is symbolic over its whole domain; the oracle is mathematical equality in a wider bit-vector / the big.Int model",
	})
}

func init() {
	rule := "one harness per (codec, accepted Go type, direction) generated from the type switches of the current tree, plus hand-written harnesses for duration, float, double, boolean, decimal and the numeric forms of date/time/timestamp; the value is symbolic over its whole domain (big.Int: |v| < 2^128)"
	register(&PropCheck{ID: "C11", Pkgs: []string{"datacodec"}, FnRe: `^VerifC11_`, Level: "model_checking", Rule: rule})
	register(&PropCheck{ID: "C12", Pkgs: []string{"datacodec"}, FnRe: `^VerifC12_`, Level: "model_checking", Rule: rule})
	register(&PropCheck{ID: "C14", Pkgs: []string{"datacodec"}, FnRe: `^VerifC14_`, Level: "model_checking", Rule: rule})
}

func init() {
	rule := "bounded operation histories of the real in-flight handler (constructor, enqueue, deliver, close) for N in {1,2,3}: every sequence of depth 4 (thorough 5) over {send, deliver final, deliver non-final page, deliver for unknown id, close} with every choice of target request is one path; managed and caller-chosen id families"
	register(&PropCheck{ID: "C09", Pkgs: []string{"client"}, FnRe: `^VerifC09_`, Level: "model_checking", Rule: rule})
	register(&PropCheck{ID: "C10", Pkgs: []string{"client"}, FnRe: `^VerifC10_`, Level: "model_checking", Rule: rule})
}

func init() {
	register(&PropCheck{ID: "C15", Pkgs: []string{"client"}, FnRe: `^VerifC15_`, Level: "model_checking",
		Rule: "unit level: the sequential framing methods of the client and server connections (segment write path, several envelopes per segment, multi-segment reassembly at every split point, layout switch, adoption of negotiated compression) executed on connection objects built in the harness / by the real server constructor; frame contents symbolic"})
}

func init() {
	register(&PropCheck{ID: "C04", Pkgs: []string{"frame", "segment", "datacodec"}, FnRe: `^VerifC04_`, Level: "model_checking", Gen: genC04, BoundIsInfo: true, MaxSymBranches: 400,
		Rule: "family 1: fully symbolic body bytes for every (opcode, version) and symbolic whole frames per version; family 2: a valid encoding of every message kind with a 4-byte window at every offset replaced by symbolic bytes and an arbitrary truncation point; every feasible path must end in a return (a Go panic is a violation, confirmed natively)"})
}
