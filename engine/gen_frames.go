package main

import (
	"fmt"
	"os"
	"path/filepath"
	"regexp"
	"strings"
)

type kindSpec struct {
	Name     string
	Versions []string // Go identifiers of primitive.ProtocolVersion constants
}

var versionIdents = []string{"ProtocolVersion2", "ProtocolVersion3", "ProtocolVersion4", "ProtocolVersion5", "ProtocolVersionDse1", "ProtocolVersionDse2"}
var versionShort = map[string]string{"ProtocolVersion2": "v2", "ProtocolVersion3": "v3", "ProtocolVersion4": "v4", "ProtocolVersion5": "v5", "ProtocolVersionDse1": "dse1", "ProtocolVersionDse2": "dse2"}

func readKinds(verif string) ([]kindSpec, error) {
	b, err := os.ReadFile(filepath.Join(verif, "harness/frame/zz_verif_lib.go"))
	if err != nil {
		return nil, err
	}
	re := regexp.MustCompile(`//verif:kind (\w+) (\w+)`)
	var out []kindSpec
	for _, m := range re.FindAllStringSubmatch(string(b), -1) {
		k := kindSpec{Name: m[1]}
		switch m[2] {
		case "all":
			k.Versions = versionIdents
		case "v3":
			k.Versions = versionIdents[1:]
		case "v4":
			k.Versions = versionIdents[2:]
		case "dse":
			k.Versions = versionIdents[4:]
		default:
			return nil, fmt.Errorf("bad versions %q", m[2])
		}
		out = append(out, k)
	}
	return out, nil
}

// genFrameHarnesses writes one harness function per (message kind, version) calling fn(kind, version, mode).
func genFrameHarnesses(c *CheckCtx, prefix, call string) error {
	kinds, err := readKinds(c.Verif)
	if err != nil {
		return err
	}
	var sb strings.Builder
	sb.WriteString("package frame\n\nimport \"github.com/datastax/go-cassandra-native-protocol/primitive\"\n\n")
	n := 0
	for _, k := range kinds {
		for _, v := range k.Versions {
			fmt.Fprintf(&sb, "func %s_%s_%s() { %s }\n", prefix, k.Name, versionShort[v], fmt.Sprintf(call, k.Name, "primitive."+v))
			n++
		}
	}
	f := filepath.Join(c.GenDir, "frame_zz_verif_"+prefix+"_gen.go")
	if err := os.WriteFile(f, []byte(sb.String()), 0o644); err != nil {
		return err
	}
	c.Overlay[filepath.Join(c.Repo, "frame", "zz_verif_"+strings.ToLower(prefix)+"_gen.go")] = f
	c.Extra["message_kinds"] = len(kinds)
	c.Extra["kind_version_harnesses"] = n
	return genEqFile(c)
}

// genC04 generates the per-(opcode, version) body harnesses and per-(kind, version) havoc harnesses.
func genC04(c *CheckCtx) error {
	pkgs, err := loadTypes(c.Repo, "./primitive")
	if err != nil {
		return err
	}
	var ops []string
	for _, e := range collectEnums(pkgs[0].Types) {
		if e.Name == "OpCode" {
			ops = e.Consts
		}
	}
	var sb strings.Builder
	sb.WriteString("package frame\n\nimport \"github.com/datastax/go-cassandra-native-protocol/primitive\"\n\n")
	n := 0
	for _, op := range ops {
		for _, v := range versionIdents {
			fmt.Fprintf(&sb, "func VerifC04_NoPanic_Body_%s_%s() { verifNoPanicBody(primitive.%s, primitive.%s) }\n", strings.TrimPrefix(op, "OpCode"), versionShort[v], v, op)
			n++
		}
	}
	kinds, err := readKinds(c.Verif)
	if err != nil {
		return err
	}
	for _, k := range kinds {
		for _, v := range k.Versions {
			if c.Tier == "quick" && v != k.Versions[len(k.Versions)-1] {
				continue // quick: the last version of each kind (thorough: every version)
			}
			fmt.Fprintf(&sb, "func VerifC04_NoPanic_Havoc_%s_%s() { verifNoPanicHavoc(%q, primitive.%s) }\n", k.Name, versionShort[v], k.Name, v)
			n++
		}
	}
	f := filepath.Join(c.GenDir, "frame_zz_verif_c04_gen.go")
	if err := os.WriteFile(f, []byte(sb.String()), 0o644); err != nil {
		return err
	}
	c.Overlay[filepath.Join(c.Repo, "frame", "zz_verif_c04_gen.go")] = f
	c.Extra["opcode_version_and_kind_version_harnesses"] = n
	return nil
}
