package main

import (
	"hash/crc32"

	"golang.org/x/tools/go/ssa"
)

// hash/crc32 for the IEEE polynomial: the real implementation is table/assembly driven; the engine uses the bitwise
// reflected definition (polynomial 0xEDB88320), validated natively against hash/crc32 by replay.
func registerCrc32(e *Engine) {
	I := e.intrinsics
	I["hash/crc32.MakeTable"] = func(x *Exec, caller *frame, fn *ssa.Function, args []Value) Value {
		poly := args[0].(*Term)
		if !poly.IsConst() || uint32(poly.Val) != crc32.IEEE {
			panic(x.unsupported("crc32.MakeTable for a polynomial other than IEEE"))
		}
		return x.ieeeTable(fn)
	}
	I["hash/crc32.Update"] = func(x *Exec, caller *frame, fn *ssa.Function, args []Value) Value {
		crc := args[0].(*Term)
		tab, _ := args[1].(*Cell)
		if tab == nil || tab != x.crcTable {
			panic(x.unsupported("crc32.Update with a table not made by crc32.MakeTable(IEEE)"))
		}
		p := args[2].(Slice)
		if p.Lazy != nil {
			p = x.lazyForce(p)
		}
		return x.crc32Update(crc, sliceBytes(p))
	}
	I["hash/crc32.ChecksumIEEE"] = func(x *Exec, caller *frame, fn *ssa.Function, args []Value) Value {
		return x.crc32Update(x.ctx.BV(0, 32), sliceBytes(args[0].(Slice)))
	}
}

func (x *Exec) crc32Update(crc *Term, data []*Term) *Term {
	c := x.ctx
	crc = c.BVNot(crc)
	poly := c.BV(0xEDB88320, 32)
	one := c.BV(1, 32)
	for _, b := range data {
		crc = c.Xor(crc, c.ZExt(b, 24))
		for i := 0; i < 8; i++ {
			low := c.Extract(crc, 0, 0)
			sh := c.LShr(crc, one)
			crc = c.Ite(c.Eq(low, c.BV(1, 1)), c.Xor(sh, poly), sh)
		}
	}
	return c.BVNot(crc)
}

func (x *Exec) ieeeTable(fn *ssa.Function) *Cell {
	if x.crcTable != nil {
		return x.crcTable
	}
	a := x.newAlloc("crc32.IEEETable", "global")
	arr := make(Array, 256)
	for i, v := range crc32.IEEETable {
		arr[i] = Cell{V: x.ctx.BV(uint64(v), 32), A: a}
	}
	x.crcTable = &Cell{V: arr, A: a}
	return x.crcTable
}
