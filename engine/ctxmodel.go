package main

import (
	"go/types"

	"golang.org/x/tools/go/ssa"
)

// context model: a context is an object with a lazily created Done channel that is closed on cancellation;
// cancellation propagates to children. Deadlines never fire (no clock in the model: timeouts are C16, not applicable).
type CtxObj struct {
	parent    *CtxObj
	children  []*CtxObj
	done      *Chan
	cancelled bool
	err       Value
}

func (x *Exec) ctxType() types.Type {
	p := x.eng.ssaPkgs["context"]
	return types.NewPointer(p.Type("cancelCtx").Type())
}

func (x *Exec) ctxCancel(c *CtxObj, err Value) {
	if c.cancelled {
		return
	}
	c.cancelled = true
	c.err = err
	if c.done != nil && !c.done.Closed {
		c.done.Closed = true
	}
	for _, ch := range c.children {
		x.ctxCancel(ch, err)
	}
}

func registerContext(e *Engine) {
	I := e.intrinsics
	mkChild := func(x *Exec, parent Value) *CtxObj {
		c := &CtxObj{}
		if pi, ok := parent.(Iface); ok {
			if po, ok := pi.V.(*CtxObj); ok && po != nil {
				c.parent = po
				po.children = append(po.children, c)
				if po.cancelled {
					c.cancelled, c.err = true, po.err
				}
			}
		}
		return c
	}
	bg := func(x *Exec, caller *frame, fn *ssa.Function, args []Value) Value {
		return Iface{T: x.ctxType(), V: &CtxObj{}}
	}
	I["context.Background"] = bg
	I["context.TODO"] = bg
	withCancel := func(x *Exec, caller *frame, fn *ssa.Function, args []Value) Value {
		c := mkChild(x, args[0])
		return Tuple{Iface{T: x.ctxType(), V: c}, &BoundMethod{Name: "ctx.cancel", Recv: c}}
	}
	I["context.WithCancel"] = withCancel
	I["context.WithTimeout"] = withCancel
	I["context.WithDeadline"] = withCancel
	I["ctx.cancel"] = func(x *Exec, caller *frame, fn *ssa.Function, args []Value) Value {
		if x.merging > 0 {
			panic(mergeAbort{"context cancel"})
		}
		x.ctxCancel(args[0].(*CtxObj), x.ctxErr("Canceled"))
		return nil
	}
	I["(*context.cancelCtx).Done"] = func(x *Exec, caller *frame, fn *ssa.Function, args []Value) Value {
		c := args[0].(*CtxObj)
		if c.done == nil {
			c.done = &Chan{Cap: 0, Closed: c.cancelled, A: x.newAlloc("context.Done", "chan")}
		}
		return c.done
	}
	I["(*context.cancelCtx).Err"] = func(x *Exec, caller *frame, fn *ssa.Function, args []Value) Value {
		c := args[0].(*CtxObj)
		if c.cancelled {
			return c.err
		}
		return Iface{}
	}
	I["(*context.cancelCtx).Value"] = func(x *Exec, caller *frame, fn *ssa.Function, args []Value) Value { return Iface{} }
}

func (x *Exec) ctxErr(name string) Value {
	if x.ctxErrs == nil {
		x.ctxErrs = map[string]Value{}
	}
	if v, ok := x.ctxErrs[name]; ok {
		return v
	}
	v := x.newErr("context "+name, nil)
	x.ctxErrs[name] = v
	return v
}
