package main

import (
	"encoding/json"
	"flag"
	"fmt"
	"os"
	"os/exec"
	"path/filepath"
	"regexp"
	"sort"
	"strconv"
	"strings"
	"time"

	"golang.org/x/tools/go/ssa"
)

// PropCheck describes how one property is decided.
type PropCheck struct {
	ID        string
	Pkgs      []string // package dirs relative to the repo root whose harness files are injected (e.g. "primitive")
	FnRe      string   // regexp over harness function names
	Level     string
	Gen       func(c *CheckCtx) error // optional: generate additional harness files into c.GenDir
	Post      func(c *CheckCtx) error // optional: extra obligations (one-shot scripts etc.)
	Rule      string
	Assume    []string
	Bounds    func(tier string) map[string]interface{}
	MaxPaths  int
	TimeoutMs func(tier string) int
	NativeRace bool // replay violations under the race detector; a reported data race confirms
	BoundIsInfo bool // paths cut by the symbolic-branch bound are reported as information (long input-controlled loops), not as inconclusive
	MaxSymBranches int
	Explain    string
}

type CheckCtx struct {
	P        *PropCheck
	Tier     string
	Seed     int64
	Repo     string
	Verif    string
	GenDir   string // scratch dir for generated sources (outside /repo)
	Overlay  map[string]string // virtual path -> real path
	Eng      *Engine
	Results  []*HarnessResult
	Extra    map[string]interface{} // extra coverage keys
	Oblig    []Obligation           // one-shot obligations
	Problems []string               // inconclusive reasons
	Viol     []Violation
	Known    []string
	Workers  int
	T0       time.Time
	NativeOK int
	NativeRuns int
	Info     []string
	Samples  []interface{}
}

type Obligation struct {
	Name   string  `json:"name"`
	Result string  `json:"result"`
	Sec    float64 `json:"solver_s"`
	Solver string  `json:"solver,omitempty"`
}

type Violation struct {
	Key     string            `json:"key"`
	Harness string            `json:"harness"`
	Msg     string            `json:"msg"`
	Site    string            `json:"site,omitempty"`
	Witness map[string]string `json:"witness"`
	Kind    string            `json:"kind"` // "assert" | "panic"
	Replay  string            `json:"replay,omitempty"`
	Confirmed bool            `json:"confirmed"`
	Detail    string          `json:"detail,omitempty"`
	NativeOut string          `json:"native_out,omitempty"`
}

var registry = map[string]*PropCheck{}

func register(p *PropCheck) { registry[p.ID] = p }

func envInt(name string, def int64) int64 {
	if s := os.Getenv(name); s != "" {
		if v, err := strconv.ParseInt(s, 10, 64); err == nil {
			return v
		}
	}
	return def
}

func cmdCheck(args []string) {
	fs := flag.NewFlagSet("check", flag.ExitOnError)
	tier := fs.String("tier", "quick", "quick|thorough")
	repo := fs.String("repo", "/repo", "repository")
	verif := fs.String("verif", "/verif", "verif dir")
	workers := fs.Int("workers", 16, "workers")
	replay := fs.String("replay", "", "replay a recorded violation file")
	fs.Parse(args)
	if fs.NArg() < 1 {
		fmt.Fprintln(os.Stderr, "usage: gosym check [flags] <ID>")
		os.Exit(2)
	}
	id := fs.Arg(0)
	if r := os.Getenv("VERIF_REPO"); r != "" {
		*repo = r // mutation evaluation: a scratch worktree instead of /repo
	}
	if t := os.Getenv("VERIF_TIER"); t == "quick" || t == "thorough" {
		*tier = t
	}
	p := registry[id]
	if p == nil {
		fmt.Fprintln(os.Stderr, "unknown property", id)
		os.Exit(2)
	}
	c := &CheckCtx{P: p, Tier: *tier, Seed: envInt("VERIF_SEED", 1), Repo: *repo, Verif: *verif,
		Overlay: map[string]string{}, Extra: map[string]interface{}{}, Workers: *workers, T0: time.Now()}
	if *replay != "" {
		os.Exit(c.replayFile(*replay))
	}
	os.Exit(c.run())
}

func (c *CheckCtx) fail(code int, format string, args ...interface{}) int {
	fmt.Printf("CHECK-ERROR property=%s: %s\n", c.P.ID, fmt.Sprintf(format, args...))
	return code
}

// collectOverlay maps harness sources into the repo tree.
func (c *CheckCtx) collectOverlay() error {
	c.Overlay[filepath.Join(c.Repo, "internal/zzverifnd/nd.go")] = filepath.Join(c.Verif, "harness/nd/nd.go")
	tierSrc := "false"
	if c.Tier == "thorough" {
		tierSrc = "true"
	}
	for _, pkg := range c.P.Pkgs {
		dir := filepath.Join(c.Verif, "harness", pkg)
		ents, _ := os.ReadDir(dir)
		for _, e := range ents {
			if strings.HasSuffix(e.Name(), ".go") && strings.HasPrefix(e.Name(), "zz_verif_") && !strings.HasSuffix(e.Name(), "_test.go") {
				c.Overlay[filepath.Join(c.Repo, pkg, e.Name())] = filepath.Join(dir, e.Name())
			}
		}
		// tier constants
		pkgName := filepath.Base(pkg)
		if b, err := os.ReadFile(filepath.Join(dir, "PKGNAME")); err == nil {
			pkgName = strings.TrimSpace(string(b))
		}
		tf := filepath.Join(c.GenDir, strings.ReplaceAll(pkg, "/", "_")+"_zz_verif_tier.go")
		os.WriteFile(tf, []byte(fmt.Sprintf("package %s\n\nconst verifThorough = %s\n", pkgName, tierSrc)), 0o644)
		c.Overlay[filepath.Join(c.Repo, pkg, "zz_verif_tier.go")] = tf
	}
	return nil
}

func (c *CheckCtx) loadEngine() error {
	ov := map[string][]byte{}
	for v, r := range c.Overlay {
		b, err := os.ReadFile(r)
		if err != nil {
			return err
		}
		ov[v] = b
	}
	var pats []string
	for _, p := range c.P.Pkgs {
		pats = append(pats, "./"+p)
	}
	eng, err := LoadEngine(c.Repo, pats, ov)
	if err != nil {
		return err
	}
	c.Eng = eng
	return nil
}

func (c *CheckCtx) harnessFns() []*ssa.Function {
	re := regexp.MustCompile(c.P.FnRe)
	var out []*ssa.Function
	for _, pkg := range c.P.Pkgs {
		sp := c.Eng.ssaPkgs[repoModule+"/"+pkg]
		if sp == nil {
			continue
		}
		var names []string
		for name, m := range sp.Members {
			if f, ok := m.(*ssa.Function); ok && re.MatchString(name) && f.Signature.Params().Len() == 0 {
				names = append(names, name)
			}
		}
		sort.Strings(names)
		for _, n := range names {
			out = append(out, sp.Func(n))
		}
	}
	return out
}

func loadKnown(verif string) (findings map[string]string, fixed []string) {
	findings = map[string]string{}
	b, err := os.ReadFile(filepath.Join(verif, "known_findings.txt"))
	if err != nil {
		return
	}
	for _, l := range strings.Split(string(b), "\n") {
		l = strings.TrimSpace(l)
		if strings.HasPrefix(l, "finding:") {
			// finding: property=C02 key=<key> :: what
			rest := strings.TrimSpace(strings.TrimPrefix(l, "finding:"))
			parts := strings.SplitN(rest, " :: ", 2)
			f := strings.Fields(parts[0])
			var prop, key string
			for _, x := range f {
				if strings.HasPrefix(x, "property=") {
					prop = strings.TrimPrefix(x, "property=")
				}
				if strings.HasPrefix(x, "key=") {
					key = strings.TrimPrefix(x, "key=")
				}
			}
			what := ""
			if len(parts) > 1 {
				what = parts[1]
			}
			findings[prop+"|"+key] = what
		} else if strings.HasPrefix(l, "fixed:") {
			fixed = append(fixed, l)
		}
	}
	return
}

func (c *CheckCtx) run() int {
	var err error
	c.GenDir, err = os.MkdirTemp("", "verif-"+c.P.ID+"-")
	if err != nil {
		return c.fail(2, "tempdir: %v", err)
	}
	defer os.RemoveAll(c.GenDir)
	if err := c.collectOverlay(); err != nil {
		return c.fail(2, "overlay: %v", err)
	}
	for _, p := range c.P.Pkgs {
		if p == "frame" {
			// the static frame harness files use the generated wire-equality functions
			if err := genEqFile(c); err != nil {
				return c.fail(2, "generate: %v", err)
			}
		}
		if p == "datacodec" {
			if err := genCodecHarnesses(c, c.P.ID); err != nil {
				return c.fail(2, "generate: %v", err)
			}
		}
	}
	if c.P.Gen != nil {
		if err := c.P.Gen(c); err != nil {
			return c.fail(2, "generate: %v", err)
		}
	}
	if err := c.loadEngine(); err != nil {
		return c.fail(2, "load: %v", err)
	}
	fns := c.harnessFns()
	if len(fns) == 0 && c.P.Post == nil {
		return c.fail(2, "no harness functions match %s", c.P.FnRe)
	}
	timeout := c.timeoutMs()
	var runs []*HarnessRun
	if only := os.Getenv("GOSYM_ONLY"); only != "" {
		ore := regexp.MustCompile(only)
		var keep []*ssa.Function
		for _, f := range fns {
			if ore.MatchString(f.Name()) {
				keep = append(keep, f)
			}
		}
		fns = keep
	}
	for _, f := range fns {
		runs = append(runs, &HarnessRun{Name: f.Pkg.Pkg.Name() + "." + f.Name(), Fn: f, MaxPaths: c.P.MaxPaths, MaxSymBranches: c.P.MaxSymBranches})
	}
	dl := int64(1500)
	if c.Tier == "thorough" {
		dl = 4 * 3600
	}
	dl = envInt("VERIF_DEADLINE_S", dl)
	runDeadline = time.Now().Add(time.Duration(dl) * time.Second)
	c.Extra["exploration_deadline_s"] = dl
	c.Results = RunAll(c.Eng, runs, c.Workers, timeout)

	// judge
	for _, r := range c.Results {
		if r.Unsupported > 0 || r.BoundHit > 0 || r.Blocked > 0 {
			for _, p := range r.Problems {
				if c.P.BoundIsInfo && p.End == "bound" && strings.Contains(p.Msg, "symbolic branches") {
					key := "input-controlled loop not explored to its end: " + p.Site
					seenInfo := false
					for _, s := range c.Info {
						if s == key {
							seenInfo = true
						}
					}
					if !seenInfo {
						c.Info = append(c.Info, key)
					}
					continue
				}
				c.Problems = append(c.Problems, fmt.Sprintf("%s: %s: %s @ %s", r.Name, p.End, p.Msg, p.Site))
			}
		}
		if r.DeadlineHit {
			c.Problems = append(c.Problems, r.Name+": exploration deadline reached before all paths were explored")
		} else if r.PathsTruncated {
			c.Problems = append(c.Problems, r.Name+": path limit reached")
		}
		if r.Unknowns > 0 || r.AssertsUnknown > 0 {
			c.Problems = append(c.Problems, fmt.Sprintf("%s: %d solver unknowns", r.Name, r.Unknowns+r.AssertsUnknown))
		}
		if r.Returned == 0 || !r.ReachOK {
			c.Problems = append(c.Problems, r.Name+": vacuous (no path reaches the end of the harness)")
		}
		if r.AssertsDischarged+r.AssertsFolded+r.AssertsViolated == 0 && !strings.Contains(r.Name, "NoPanic") {
			c.Problems = append(c.Problems, r.Name+": no assertion evaluated")
		}
		seen := map[string]bool{}
		for _, p := range r.Violations {
			for _, a := range p.Asserts {
				if a.Status != "violated" {
					continue
				}
				key := r.Name + "|" + a.Msg
				if seen[key] {
					continue
				}
				seen[key] = true
				c.Viol = append(c.Viol, Violation{Key: key, Harness: r.Name, Msg: a.Msg, Witness: a.Model, Kind: "assert", Detail: strings.Join(firstN(p.Notes, 4), "; ")})
			}
		}
		for _, p := range r.PanicPaths {
			key := r.Name + "|panic:" + panicKey(p.Site)
			if seen[key] {
				continue
			}
			seen[key] = true
			c.Viol = append(c.Viol, Violation{Key: key, Harness: r.Name, Msg: p.Msg, Site: p.Site, Witness: p.Model, Kind: "panic"})
		}
	}
	if c.P.Post != nil {
		if err := c.P.Post(c); err != nil {
			c.Problems = append(c.Problems, "post: "+err.Error())
		}
	}
	// native confirmation of violations, translator validation
	if err := c.nativePhase(); err != nil {
		c.Problems = append(c.Problems, "native: "+err.Error())
	}

	known, _ := loadKnown(c.Verif)
	exit := 0
	nviol := 0
	var lines []string
	replayDir := filepath.Join(c.Verif, "replays")
	if d := os.Getenv("VERIF_EVIDENCE_DIR"); d != "" {
		replayDir = filepath.Join(d, "replays")
	}
	os.MkdirAll(replayDir, 0o755)
	for i := range c.Viol {
		v := &c.Viol[i]
		if !v.Confirmed {
			c.Problems = append(c.Problems, fmt.Sprintf("UNCONFIRMED-COUNTEREXAMPLE %s (native run did not reproduce: %s) %s", v.Key, firstLine(v.NativeOut), v.Detail))
			continue
		}
		if what, ok := known[c.P.ID+"|"+v.Key]; ok {
			lines = append(lines, fmt.Sprintf("KNOWN-FINDING: property=%s %s (%s)", c.P.ID, what, v.Key))
			c.Known = append(c.Known, v.Key)
			continue
		}
		nviol++
		path := filepath.Join(replayDir, fmt.Sprintf("%s-%d.json", c.P.ID, nviol))
		v.Replay = path
		b, _ := json.MarshalIndent(v, "", " ")
		os.WriteFile(path, b, 0o644)
		lines = append(lines, fmt.Sprintf("VIOLATION property=%s replay=%s", c.P.ID, path))
		ws := fmt.Sprint(v.Witness)
		if len(ws) > 400 {
			ws = ws[:400] + "...(see replay file)"
		}
		lines = append(lines, fmt.Sprintf("  %s witness=%s", v.Key, ws))
		exit = 1
	}
	for _, l := range lines {
		fmt.Println(l)
	}
	if exit == 0 && len(c.Problems) > 0 {
		exit = 2
		for _, p := range c.Problems {
			fmt.Printf("INCONCLUSIVE property=%s: %s\n", c.P.ID, p)
		}
	}
	c.writeEvidence(nviol)
	c.summary(exit)
	return exit
}

// capWitness keeps evidence files small: witnesses of harnesses with thousands of input bytes are cut to 24 entries
func capWitness(m map[string]string) map[string]string {
	if len(m) <= 24 {
		return m
	}
	keys := make([]string, 0, len(m))
	for k := range m {
		keys = append(keys, k)
	}
	sort.Strings(keys)
	out := map[string]string{}
	for _, k := range keys[:24] {
		out[k] = m[k]
	}
	out["..."] = fmt.Sprintf("%d more inputs not shown", len(m)-24)
	return out
}

func firstN(l []string, n int) []string {
	if len(l) > n {
		return l[:n]
	}
	return l
}

func firstLine(s string) string {
	s = strings.TrimSpace(s)
	if i := strings.Index(s, "\n"); i >= 0 {
		return s[:i]
	}
	return s
}

var siteFnRe = regexp.MustCompile(`^(\S+)`)

func panicKey(site string) string {
	// function name plus file:line
	return strings.ReplaceAll(site, " ", "")
}

func (c *CheckCtx) summary(exit int) {
	paths, steps, q := 0, 0, 0
	var ss float64
	ad, af := 0, 0
	for _, r := range c.Results {
		paths += r.Paths
		steps += r.Steps
		q += r.Queries
		ss += r.SolverSec
		ad += r.AssertsDischarged
		af += r.AssertsFolded
	}
	fmt.Printf("SUMMARY property=%s tier=%s harnesses=%d paths=%d steps=%d queries=%d solver_s=%.1f asserts_discharged=%d asserts_folded=%d obligations=%d native_ok=%d/%d known=%d exit=%d wall_s=%.1f\n",
		c.P.ID, c.Tier, len(c.Results), paths, steps, q, ss, ad, af, len(c.Oblig), c.NativeOK, c.NativeRuns, len(c.Known), exit, time.Since(c.T0).Seconds())
}

func (c *CheckCtx) writeEvidence(nviol int) {
	paths, steps, q := 0, 0, 0
	var ss float64
	ad, af, au := 0, 0, 0
	funcs := map[string]bool{}
	var hs []interface{}
	nontrivial := 0
	for _, r := range c.Results {
		paths += r.Paths
		steps += r.Steps
		q += r.Queries
		ss += r.SolverSec
		ad += r.AssertsDischarged
		af += r.AssertsFolded
		au += r.AssertsUnknown
		if r.AssertsDischarged > 0 || r.SymBranches > 0 {
			nontrivial++
		}
		hs = append(hs, map[string]interface{}{
			"harness": r.Name, "paths": r.Paths, "returned": r.Returned, "panic_paths": r.Panics, "infeasible": r.Infeasible,
			"asserts_solver_discharged": r.AssertsDischarged, "asserts_folded_by_simplifier": r.AssertsFolded,
			"asserts_violated": r.AssertsViolated, "queries": r.Queries, "solver_s": round3(r.SolverSec), "ssa_steps": r.Steps,
			"reach_witness": capWitness(r.ReachModel),
		})
	}
	for _, r := range c.Results {
		for f := range r.Funcs {
			funcs[f] = true
		}
	}
	var funcList []string
	for f := range funcs {
		funcList = append(funcList, f)
	}
	sort.Strings(funcList)
	samples := c.Samples
	for i, h := range hs {
		if i < 6 {
			samples = append(samples, h)
		}
	}
	if len(samples) == 0 {
		samples = append(samples, "none")
	}
	cov := map[string]interface{}{
		"states":                        paths,
		"transitions":                   steps,
		"traces_validated_against_impl": c.NativeOK,
		"samples":                       samples,
		"evaluations":                   paths + len(c.Oblig),
		"distinct_nontrivial":           nontrivial + len(c.Oblig),
		"rule":                          c.P.Rule,
		"harnesses":                     hs,
		"queries":                       q,
		"solver_s":                      round3(ss),
		"asserts_solver_discharged":     ad,
		"asserts_folded_by_simplifier":  af,
		"asserts_unknown":               au,
		"one_shot_obligations":          c.Oblig,
		"native_runs":                   c.NativeRuns,
		"inconclusive":                  c.Problems,
		"known_findings_seen":           c.Known,
		"engine_load_s":                 round3(c.Eng.LoadSeconds),
		"solver":                        "z3 4.8.12 (-in, incremental, push/pop); see one_shot_obligations for others",
		"stubs":                         stubList(),
		"functions_encoded":             funcList,
		"functions_encoded_count":       len(funcList),
		"path_limit_per_harness":        c.P.MaxPaths,
		"solver_timeout_ms_per_query":   c.timeoutMs(),
	}
	if c.P.Bounds != nil {
		cov["bounds"] = c.P.Bounds(c.Tier)
	}
	if c.P.Explain != "" {
		cov["explanation"] = c.P.Explain
	}
	if len(c.Info) > 0 {
		cov["information"] = c.Info
	}
	for k, v := range c.Extra {
		cov[k] = v
	}
	ev := map[string]interface{}{
		"property_id": c.P.ID,
		"tier":        c.Tier,
		"seed":        c.Seed,
		"level":       c.P.Level,
		"coverage":    cov,
		"assumptions": append([]string{
			"go/ssa translation of the Go source is faithful; gosym's interpreter and the stubs listed under coverage.stubs model the replaced library code correctly (checked by native replay of reach witnesses)",
			"claims hold only within coverage.bounds / the shapes enumerated by the harness; out-of-memory and stack exhaustion are outside every claim",
		}, c.P.Assume...),
		"wall_s":      round3(time.Since(c.T0).Seconds()),
		"violations":  nviol,
	}
	evDir := filepath.Join(c.Verif, "evidence")
	if d := os.Getenv("VERIF_EVIDENCE_DIR"); d != "" {
		evDir = d // mutation evaluation must not overwrite the evidence of the unchanged tree
	}
	os.MkdirAll(evDir, 0o755)
	b, _ := json.MarshalIndent(ev, "", " ")
	os.WriteFile(filepath.Join(evDir, c.P.ID+".json"), b, 0o644)
}

func (c *CheckCtx) timeoutMs() int {
	timeout := 60000
	if c.Tier == "thorough" {
		timeout = 600000
	}
	if c.P.TimeoutMs != nil {
		timeout = c.P.TimeoutMs(c.Tier)
	}
	return int(envInt("GOSYM_TIMEOUT_MS", int64(timeout)))
}

func round3(f float64) float64 { return float64(int64(f*1000)) / 1000 }

func stubList() []string {
	return []string{
		"bytes.Buffer/bytes.Reader: built-in model (append-only byte list + read offset)",
		"io.ReadFull/ReadAtLeast/CopyN/Copy, encoding/binary.Read/Write: built-in model over the reader/writer interfaces",
		"fmt.Errorf/errors.New: fresh non-nil opaque error (%w chain kept); fmt.Sprintf: opaque string",
		"zerolog: all calls no-ops",
		"sync.Mutex/RWMutex/WaitGroup: no-ops; sync/atomic: plain loads/stores (sequential execution)",
		"math/bits.LeadingZeros*: ite chain; math.Float*bits: bit casts",
		"lz4.CompressBlock/UncompressBlock, snappy.Encode/Decode: contract stubs (lossless, length-carrying, 1 <= k <= bound, LZ4 ratio <= 255:1, never panic); hash/crc32: bitwise model",
		"datacodec extractor/injector interfaces: non-reflective stand-ins in the container harnesses (typed pointers, nil = NULL; the injector factory panics on a negative size as reflect.MakeSlice does); natively the same harnesses run the real reflective codecs",
		"sync.Pool: Get always builds a new object with New, Put records the memory as released (a function returning released memory is reported, C18)",
		"(*big.Float).SetFloat64: contract stub (panics on NaN, value not modelled); strings.EqualFold: exact on ASCII byte lists, non-ASCII content ends the path as unsupported",
		"solver: z3 4.8.12 incremental; a query answered unknown is retried once as a standalone script by a one-shot z3 with five times the budget",
	}
}

// ---------- native phase: replay of counterexamples + translator validation ----------

type nativeJob struct {
	ID      string            `json:"id"`
	Harness string            `json:"harness"` // FuncName
	Witness map[string]string `json:"witness"`
}

type nativeRes struct {
	ID     string `json:"id"`
	Out    string `json:"out"`
	Panic  string `json:"panic"`
	Assume bool   `json:"assume_failed"`
}

const replayTestTmpl = `package %s

import (
	"encoding/json"
	"fmt"
	"os"
	"testing"

	nd "github.com/datastax/go-cassandra-native-protocol/internal/zzverifnd"
)

var verifHarnessTable = map[string]func(){
%s}

func TestVerifReplay(t *testing.T) {
	type job struct {
		ID      string            ` + "`json:\"id\"`" + `
		Harness string            ` + "`json:\"harness\"`" + `
		Witness map[string]string ` + "`json:\"witness\"`" + `
	}
	type res struct {
		ID     string ` + "`json:\"id\"`" + `
		Out    string ` + "`json:\"out\"`" + `
		Panic  string ` + "`json:\"panic\"`" + `
		Assume bool   ` + "`json:\"assume_failed\"`" + `
	}
	b, err := os.ReadFile(os.Getenv("VERIF_JOBS"))
	if err != nil {
		t.Skip("no jobs")
	}
	var jobs []job
	if err := json.Unmarshal(b, &jobs); err != nil {
		t.Fatal(err)
	}
	var out []res
	for _, j := range jobs {
		r := res{ID: j.ID}
		fn := verifHarnessTable[j.Harness]
		if fn == nil {
			r.Panic = "no such harness"
			out = append(out, r)
			continue
		}
		nd.Reset(j.Witness)
		func() {
			defer func() {
				if e := recover(); e != nil {
					if _, ok := e.(nd.AssumeFailed); ok {
						r.Assume = true
						return
					}
					r.Panic = fmt.Sprint(e)
				}
			}()
			fn()
		}()
		r.Out = nd.Report()
		out = append(out, r)
	}
	ob, _ := json.Marshal(out)
	os.WriteFile(os.Getenv("VERIF_JOBS_OUT"), ob, 0o644)
}
`

// runNative runs jobs (grouped by package dir) through `go test -overlay`.
func (c *CheckCtx) runNative(pkg string, jobs []nativeJob) (map[string]nativeRes, error) {
	out := map[string]nativeRes{}
	if len(jobs) == 0 {
		return out, nil
	}
	sp := c.Eng.ssaPkgs[repoModule+"/"+pkg]
	var tbl strings.Builder
	re := regexp.MustCompile(`^Verif`)
	var names []string
	for name, m := range sp.Members {
		if f, ok := m.(*ssa.Function); ok && re.MatchString(name) && f.Signature.Params().Len() == 0 && f.Signature.Results().Len() == 0 {
			names = append(names, name)
		}
	}
	sort.Strings(names)
	for _, n := range names {
		fmt.Fprintf(&tbl, "\t%q: %s,\n", n, n)
	}
	testSrc := fmt.Sprintf(replayTestTmpl, sp.Pkg.Name(), tbl.String())
	tf := filepath.Join(c.GenDir, strings.ReplaceAll(pkg, "/", "_")+"_zz_verif_replay_test.go")
	os.WriteFile(tf, []byte(testSrc), 0o644)
	ov := map[string]string{}
	for v, r := range c.Overlay {
		ov[v] = r
	}
	ov[filepath.Join(c.Repo, pkg, "zz_verif_replay_test.go")] = tf
	ovj, _ := json.Marshal(map[string]interface{}{"Replace": ov})
	ovf := filepath.Join(c.GenDir, "overlay_"+strings.ReplaceAll(pkg, "/", "_")+".json")
	os.WriteFile(ovf, ovj, 0o644)
	jf := filepath.Join(c.GenDir, "jobs_"+strings.ReplaceAll(pkg, "/", "_")+".json")
	jb, _ := json.Marshal(jobs)
	os.WriteFile(jf, jb, 0o644)
	of := jf + ".out"
	argv := []string{"600", "go", "test", "-vet=off", "-count=1", "-overlay", ovf, "-run", "^TestVerifReplay$"}
	if c.P.NativeRace {
		argv = append(argv, "-race")
	}
	argv = append(argv, "./"+pkg)
	cmd := exec.Command("timeout", argv...)
	cmd.Dir = c.Repo
	cmd.Env = append(os.Environ(), "GOFLAGS=-mod=mod", "GOPROXY=off", "GOSUMDB=off", "GOTOOLCHAIN=local", "VERIF_JOBS="+jf, "VERIF_JOBS_OUT="+of)
	txt, err := cmd.CombinedOutput()
	ob, rerr := os.ReadFile(of)
	if rerr != nil {
		return out, fmt.Errorf("native run for %s failed: %v\n%s", pkg, err, tail(string(txt), 2000))
	}
	var rs []nativeRes
	if err := json.Unmarshal(ob, &rs); err != nil {
		return out, err
	}
	race := c.P.NativeRace && strings.Contains(string(txt), "DATA RACE")
	for _, r := range rs {
		if race && strings.HasPrefix(r.ID, "viol-") && r.Panic == "" {
			r.Panic = "DATA RACE reported by the race detector"
		}
		out[r.ID] = r
	}
	return out, nil
}

func tail(s string, n int) string {
	if len(s) > n {
		return s[len(s)-n:]
	}
	return s
}

func pkgOfHarness(c *CheckCtx, harness string) (pkg, fn string) {
	i := strings.Index(harness, ".")
	pname, fn := harness[:i], harness[i+1:]
	for _, p := range c.P.Pkgs {
		sp := c.Eng.ssaPkgs[repoModule+"/"+p]
		if sp != nil && sp.Pkg.Name() == pname && sp.Func(fn) != nil {
			return p, fn
		}
	}
	return "", fn
}

func (c *CheckCtx) nativePhase() error {
	jobs := map[string][]nativeJob{}
	// 1. violations
	for i, v := range c.Viol {
		if v.Harness == "" {
			continue
		}
		pkg, fn := pkgOfHarness(c, v.Harness)
		jobs[pkg] = append(jobs[pkg], nativeJob{ID: fmt.Sprintf("viol-%d", i), Harness: fn, Witness: v.Witness})
	}
	// 2. translator validation: replay reach witnesses (and seeded variations) and compare outputs
	type tv struct {
		r   *HarnessResult
		job nativeJob
	}
	var tvs []tv
	for i, r := range c.Results {
		if r.ReachModel == nil {
			continue
		}
		pkg, fn := pkgOfHarness(c, r.Name)
		j := nativeJob{ID: fmt.Sprintf("tv-%d", i), Harness: fn, Witness: r.ReachModel}
		jobs[pkg] = append(jobs[pkg], j)
		tvs = append(tvs, tv{r, j})
	}
	results := map[string]nativeRes{}
	for pkg, js := range jobs {
		batches := [][]nativeJob{js}
		if c.P.NativeRace {
			var vj, tj []nativeJob
			for _, j := range js {
				if strings.HasPrefix(j.ID, "viol-") {
					vj = append(vj, j)
				} else {
					tj = append(tj, j)
				}
			}
			batches = [][]nativeJob{tj}
			for _, j := range vj {
				batches = append(batches, []nativeJob{j}) // one run per violation: a race report is not attributable otherwise
			}
		}
		for _, b := range batches {
			rs, err := c.runNative(pkg, b)
			if err != nil {
				return err
			}
			for k, v := range rs {
				results[k] = v
			}
		}
	}
	for i := range c.Viol {
		v := &c.Viol[i]
		r, ok := results[fmt.Sprintf("viol-%d", i)]
		if !ok {
			continue
		}
		v.NativeOut = r.Out + r.Panic
		c.NativeRuns++
		if v.Kind == "assert" {
			v.Confirmed = strings.Contains(r.Out, "FAIL "+v.Msg+"\n") || (r.Panic != "" && !r.Assume)
			if r.Panic != "" {
				v.NativeOut = "PANIC " + r.Panic + "\n" + r.Out
			}
		} else {
			v.Confirmed = r.Panic != "" && !r.Assume
		}
		if v.Confirmed {
			c.NativeOK++
		}
	}
	for _, t := range tvs {
		r, ok := results[t.job.ID]
		if !ok {
			continue
		}
		c.NativeRuns++
		// reach witness of a returned path without violated assertion must run natively without failure
		if r.Assume {
			c.Problems = append(c.Problems, fmt.Sprintf("translator validation: %s: native run rejects the engine's reach witness (assume failed)", t.r.Name))
			continue
		}
		if r.Panic != "" {
			c.Problems = append(c.Problems, fmt.Sprintf("translator validation: %s: native run panics on the engine's reach witness: %s", t.r.Name, r.Panic))
			continue
		}
		c.NativeOK++
	}
	return nil
}

func (c *CheckCtx) replayFile(path string) int {
	b, err := os.ReadFile(path)
	if err != nil {
		return c.fail(2, "%v", err)
	}
	var v Violation
	if err := json.Unmarshal(b, &v); err != nil {
		return c.fail(2, "%v", err)
	}
	c.GenDir, _ = os.MkdirTemp("", "verif-replay-")
	defer os.RemoveAll(c.GenDir)
	c.collectOverlay()
	for _, p := range c.P.Pkgs {
		if p == "frame" {
			genEqFile(c)
		}
		if p == "datacodec" {
			genCodecHarnesses(c, c.P.ID)
		}
	}
	if c.P.Gen != nil {
		if err := c.P.Gen(c); err != nil {
			return c.fail(2, "generate: %v", err)
		}
	}
	if err := c.loadEngine(); err != nil {
		return c.fail(2, "load: %v", err)
	}
	pkg, fn := pkgOfHarness(c, v.Harness)
	rs, err := c.runNative(pkg, []nativeJob{{ID: "r", Harness: fn, Witness: v.Witness}})
	if err != nil {
		return c.fail(2, "%v", err)
	}
	r := rs["r"]
	fmt.Printf("native run of %s with witness %v:\n%s", v.Harness, v.Witness, r.Out)
	if r.Panic != "" {
		fmt.Println("PANIC", r.Panic)
	}
	if strings.Contains(r.Out, "FAIL "+v.Msg) || r.Panic != "" {
		fmt.Println("REPLAY-CONFIRMED")
		return 1
	}
	fmt.Println("REPLAY-NOT-REPRODUCED")
	return 0
}
