package main

import (
	"fmt"
	"go/types"
	"os"
	"path/filepath"
	"strings"
)

// genC13 generates one harness per numeric helper of datacodec/conversions.go (found by go/types): the helper is
// called on an arbitrary source value; if it returns no error the result must equal the source as a mathematical
// integer (comparison in 65 bits / in the big.Int model, never modulo 2^n).
func genC13(c *CheckCtx) error {
	pkgs, err := loadTypes(c.Repo, "./datacodec")
	if err != nil {
		return err
	}
	pkg := pkgs[0].Types
	var sb strings.Builder
	sb.WriteString("package datacodec\n\nimport (\n\t\"math/big\"\n\n\tnd \"" + ndPath + "\"\n)\n\nvar _ *big.Int\n\n")
	ndName := map[types.BasicKind]string{types.Int8: "Int8", types.Int16: "Int16", types.Int32: "Int32", types.Int64: "Int64", types.Int: "Int",
		types.Uint8: "Uint8", types.Uint16: "Uint16", types.Uint32: "Uint32", types.Uint64: "Uint64", types.Uint: "Uint64"}
	intKind := func(t types.Type) (types.BasicKind, bool) {
		b, ok := t.Underlying().(*types.Basic)
		if !ok || b.Info()&types.IsInteger == 0 {
			return 0, false
		}
		return b.Kind(), true
	}
	isBig := func(t types.Type) bool { return types.TypeString(t, nil) == "*math/big.Int" }
	var names []string
	scope := pkg.Scope()
	for _, n := range scope.Names() {
		fn, ok := scope.Lookup(n).(*types.Func)
		if !ok {
			continue
		}
		pos := pkgs[0].Fset.Position(fn.Pos())
		if filepath.Base(pos.Filename) != "conversions.go" {
			continue
		}
		sig := fn.Type().(*types.Signature)
		if sig.Results().Len() != 2 || sig.Params().Len() < 1 || sig.Params().Len() > 2 {
			continue
		}
		if types.TypeString(sig.Results().At(1).Type(), nil) != "error" {
			continue
		}
		src, dst := sig.Params().At(0).Type(), sig.Results().At(0).Type()
		withSize := sig.Params().Len() == 2
		if withSize {
			if k, ok := intKind(sig.Params().At(1).Type()); !ok || k != types.Int {
				continue
			}
		}
		sk, sInt := intKind(src)
		dk, dInt := intKind(dst)
		signed := func(k types.BasicKind) string {
			switch k {
			case types.Int8, types.Int16, types.Int32, types.Int64, types.Int:
				return "true"
			}
			return "false"
		}
		sizes := []string{""}
		if withSize {
			sizes = []string{"64", "32"}
		}
		for _, sz := range sizes {
			hn := "VerifC13_helper_" + n
			call := n + "(v)"
			if withSize {
				hn += "_intSize" + sz
				call = n + "(v, " + sz + ")"
			}
			switch {
			case sInt && dInt:
				fmt.Fprintf(&sb, "func %s() {\n\tv := %s(nd.%s(\"v\"))\n\tr, err := %s\n\tif err == nil {\n", hn, types.TypeString(src, nil), ndName[sk], call)
				fmt.Fprintf(&sb, "\t\tnd.Assert(nd.MathEqual(uint64(v), %s, uint64(r), %s), \"%s: a result returned without error equals the source value\")\n", signed(sk), signed(dk), n)
				if sz == "32" {
					if signed(dk) == "true" {
						fmt.Fprintf(&sb, "\t\tnd.Assert(nd.MathEqual(uint64(r), true, uint64(int32(r)), true), \"%s: with intSize 32 the result fits 32 bits\")\n", n)
					} else {
						fmt.Fprintf(&sb, "\t\tnd.Assert(nd.MathEqual(uint64(r), false, uint64(uint32(r)), false), \"%s: with intSize 32 the result fits 32 bits\")\n", n)
					}
				}
				sb.WriteString("\t} else {\n\t\tnd.Assert(true, \"rejected\")\n\t}\n}\n\n")
				names = append(names, hn)
			case isBig(src) && dInt:
				fmt.Fprintf(&sb, "func %s() {\n\tv := nd.BigInt(\"v\")\n\tr, err := %s\n\tif err == nil {\n", hn, call)
				fmt.Fprintf(&sb, "\t\tnd.Assert(nd.BigEqual(v, uint64(r), %s), \"%s: a result returned without error equals the source value\")\n", signed(dk), n)
				if sz == "32" {
					if signed(dk) == "true" {
						fmt.Fprintf(&sb, "\t\tnd.Assert(nd.MathEqual(uint64(r), true, uint64(int32(r)), true), \"%s: with intSize 32 the result fits 32 bits\")\n", n)
					} else {
						fmt.Fprintf(&sb, "\t\tnd.Assert(nd.MathEqual(uint64(r), false, uint64(uint32(r)), false), \"%s: with intSize 32 the result fits 32 bits\")\n", n)
					}
				}
				sb.WriteString("\t} else {\n\t\tnd.Assert(true, \"rejected\")\n\t}\n}\n\n")
				names = append(names, hn)
			}
		}
	}
	c.Extra["conversion_helpers_found_in_tree"] = len(names)
	f := filepath.Join(c.GenDir, "datacodec_zz_verif_c13_gen.go")
	if err := os.WriteFile(f, []byte(sb.String()), 0o644); err != nil {
		return err
	}
	c.Overlay[filepath.Join(c.Repo, "datacodec", "zz_verif_c13_gen.go")] = f
	return nil
}
