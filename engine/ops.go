package main

import (
	"fmt"
	"go/token"
	"go/types"
	"math"

	"golang.org/x/tools/go/ssa"
)

func f32bits(f float32) uint32 { return math.Float32bits(f) }
func f64bits(f float64) uint64 { return math.Float64bits(f) }

func (x *Exec) binop(op token.Token, t types.Type, a, b Value) Value {
	c := x.ctx
	switch op {
	case token.EQL:
		if isFloat(t) {
			return x.floatEq(a.(*Term), b.(*Term))
		}
		return x.valEq(a, b)
	case token.NEQ:
		if isFloat(t) {
			return c.Not(x.floatEq(a.(*Term), b.(*Term)))
		}
		return c.Not(x.valEq(a, b))
	}
	if sa, ok := a.(*Str); ok {
		sb := b.(*Str)
		switch op {
		case token.ADD:
			n := make([]*Term, 0, len(sa.B)+len(sb.B))
			n = append(n, sa.B...)
			n = append(n, sb.B...)
			return &Str{B: n}
		case token.LSS, token.LEQ, token.GTR, token.GEQ:
			ca, oka := sa.Concrete()
			cb, okb := sb.Concrete()
			if oka && okb {
				var r bool
				switch op {
				case token.LSS:
					r = ca < cb
				case token.LEQ:
					r = ca <= cb
				case token.GTR:
					r = ca > cb
				case token.GEQ:
					r = ca >= cb
				}
				return c.Bool(r)
			}
			panic(x.unsupported("ordering of symbolic strings"))
		}
	}
	ta, ok := a.(*Term)
	if !ok {
		panic(x.unsupported(fmt.Sprintf("binop %s on %T", op, a)))
	}
	tb := b.(*Term)
	if isFloat(t) {
		return x.floatBinop(op, ta, tb)
	}
	signed := isSigned(t)
	switch op {
	case token.ADD:
		return c.Add(ta, tb)
	case token.SUB:
		return c.Sub(ta, tb)
	case token.MUL:
		return c.Mul(ta, tb)
	case token.QUO, token.REM:
		x.mustHold(c.Not(c.Eq(tb, c.SBV(0, tb.W))), "integer divide by zero")
		if signed {
			if op == token.QUO {
				return c.SDiv(ta, tb)
			}
			return c.SRem(ta, tb)
		}
		if op == token.QUO {
			return c.UDiv(ta, tb)
		}
		return c.URem(ta, tb)
	case token.AND:
		if ta.W == 0 {
			return c.BAnd(ta, tb)
		}
		return c.And(ta, tb)
	case token.OR:
		if ta.W == 0 {
			return c.BOr(ta, tb)
		}
		return c.Or(ta, tb)
	case token.XOR:
		return c.Xor(ta, tb)
	case token.AND_NOT:
		return c.And(ta, c.BVNot(tb))
	case token.SHL, token.SHR:
		// shift count: any integer type; negative signed count panics
		// (ssa inserts no check; go vet forbids constant negatives)
		sh := tb
		if sh.W > ta.W {
			// saturate: if sh >= W result is 0 / sign
			big := c.ULe(c.BV(uint64(ta.W), sh.W), sh)
			low := c.Extract(sh, ta.W-1, 0)
			var r *Term
			if op == token.SHL {
				r = c.Shl(ta, low)
				return c.Ite(big, c.SBV(0, ta.W), r)
			}
			if signed {
				r = c.AShr(ta, low)
				return c.Ite(big, c.AShr(ta, c.BV(uint64(ta.W-1), ta.W)), r)
			}
			r = c.LShr(ta, low)
			return c.Ite(big, c.SBV(0, ta.W), r)
		}
		sh = c.ZExt(sh, ta.W-sh.W)
		if op == token.SHL {
			return c.Shl(ta, sh)
		}
		if signed {
			return c.AShr(ta, sh)
		}
		return c.LShr(ta, sh)
	case token.LSS:
		if signed {
			return c.SLt(ta, tb)
		}
		return c.ULt(ta, tb)
	case token.LEQ:
		if signed {
			return c.SLe(ta, tb)
		}
		return c.ULe(ta, tb)
	case token.GTR:
		if signed {
			return c.SLt(tb, ta)
		}
		return c.ULt(tb, ta)
	case token.GEQ:
		if signed {
			return c.SLe(tb, ta)
		}
		return c.ULe(tb, ta)
	}
	panic(x.unsupported("binop " + op.String()))
}

func (x *Exec) floatBinop(op token.Token, a, b *Term) Value {
	c := x.ctx
	if a.IsConst() && b.IsConst() {
		if a.W == 32 {
			fa, fb := math.Float32frombits(uint32(a.Val)), math.Float32frombits(uint32(b.Val))
			switch op {
			case token.ADD:
				return c.BV(uint64(math.Float32bits(fa+fb)), 32)
			case token.SUB:
				return c.BV(uint64(math.Float32bits(fa-fb)), 32)
			case token.MUL:
				return c.BV(uint64(math.Float32bits(fa*fb)), 32)
			case token.QUO:
				return c.BV(uint64(math.Float32bits(fa/fb)), 32)
			case token.LSS:
				return c.Bool(fa < fb)
			case token.LEQ:
				return c.Bool(fa <= fb)
			case token.GTR:
				return c.Bool(fa > fb)
			case token.GEQ:
				return c.Bool(fa >= fb)
			}
		} else {
			fa, fb := math.Float64frombits(a.Val), math.Float64frombits(b.Val)
			switch op {
			case token.ADD:
				return c.BV(math.Float64bits(fa+fb), 64)
			case token.SUB:
				return c.BV(math.Float64bits(fa-fb), 64)
			case token.MUL:
				return c.BV(math.Float64bits(fa*fb), 64)
			case token.QUO:
				return c.BV(math.Float64bits(fa/fb), 64)
			case token.LSS:
				return c.Bool(fa < fb)
			case token.LEQ:
				return c.Bool(fa <= fb)
			case token.GTR:
				return c.Bool(fa > fb)
			case token.GEQ:
				return c.Bool(fa >= fb)
			}
		}
	}
	// symbolic: comparisons via FP theory apps
	switch op {
	case token.LSS:
		return x.fpCmp("fp.lt", a, b)
	case token.LEQ:
		return x.fpCmp("fp.leq", a, b)
	case token.GTR:
		return x.fpCmp("fp.gt", a, b)
	case token.GEQ:
		return x.fpCmp("fp.geq", a, b)
	}
	panic(x.unsupported("symbolic float arithmetic " + op.String()))
}

// floatEq implements Go == on floats given as bit patterns.
func (x *Exec) floatEq(a, b *Term) *Term {
	if a.IsConst() && b.IsConst() {
		if a.W == 32 {
			return x.ctx.Bool(math.Float32frombits(uint32(a.Val)) == math.Float32frombits(uint32(b.Val)))
		}
		return x.ctx.Bool(math.Float64frombits(a.Val) == math.Float64frombits(b.Val))
	}
	return x.fpCmp("fp.eq", a, b)
}

func (x *Exec) conv(dst, src types.Type, v Value) Value {
	c := x.ctx
	ud, us := dst.Underlying(), src.Underlying()
	switch us := us.(type) {
	case *types.Pointer:
		if _, ok := ud.(*types.Pointer); ok {
			return v
		}
		if b, ok := ud.(*types.Basic); ok && b.Kind() == types.UnsafePointer {
			return v
		}
	case *types.Slice:
		s := v.(Slice)
		if isString(ud) {
			// []byte / []rune -> string
			if eb, ok := us.Elem().Underlying().(*types.Basic); ok && eb.Kind() == types.Uint8 {
				if s.Lazy != nil {
					s = x.lazyForce(s)
				}
				return &Str{B: sliceBytes(s)}
			}
			panic(x.unsupported("[]rune to string"))
		}
		if _, ok := ud.(*types.Slice); ok {
			return v
		}
	case *types.Basic:
		if us.Info()&types.IsString != 0 {
			str := v.(*Str)
			if sl, ok := ud.(*types.Slice); ok {
				if eb, ok := sl.Elem().Underlying().(*types.Basic); ok && eb.Kind() == types.Uint8 {
					if len(str.B) == 0 {
						return Slice{C: []Cell{}}
					}
					return x.bytesToSlice(append([]*Term{}, str.B...), x.site())
				}
				panic(x.unsupported("string to []rune"))
			}
			if isString(ud) {
				return v
			}
		}
		if us.Kind() == types.UnsafePointer {
			return v
		}
		if db, ok := ud.(*types.Basic); ok {
			t := v.(*Term)
			switch {
			case db.Info()&types.IsString != 0 && us.Info()&types.IsInteger != 0:
				// string(rune)
				if t.IsConst() {
					return x.strConst(string(rune(t.SVal())))
				}
				// only used to build messages; the UTF-8 length of the result is not modelled
				return x.strConst("‹rune›")
			case us.Info()&types.IsInteger != 0 && db.Info()&types.IsInteger != 0:
				return c.Resize(t, widthOfBasic(db), isSigned(src))
			case us.Info()&types.IsFloat != 0 && db.Info()&types.IsFloat != 0:
				return x.fpToFp(t, widthOfBasic(db))
			case us.Info()&types.IsInteger != 0 && db.Info()&types.IsFloat != 0:
				return x.intToFp(t, isSigned(src), widthOfBasic(db))
			case us.Info()&types.IsFloat != 0 && db.Info()&types.IsInteger != 0:
				return x.fpToInt(t, isSigned(dst), widthOfBasic(db))
			case us.Info()&types.IsBoolean != 0 && db.Info()&types.IsBoolean != 0:
				return v
			}
		}
	}
	panic(x.unsupported(fmt.Sprintf("conv %v -> %v", src, dst)))
}

func (x *Exec) builtin(b *ssa.Builtin, args []Value, caller *frame) Value {
	c := x.ctx
	switch b.Name() {
	case "len":
		switch v := args[0].(type) {
		case *Str:
			return c.BV(uint64(len(v.B)), 64)
		case Slice:
			if v.Lazy != nil {
				return x.lazyLen(v)
			}
			return c.BV(uint64(len(v.C)), 64)
		case Array:
			return c.BV(uint64(len(v)), 64)
		case *Map:
			if v == nil {
				return c.BV(0, 64)
			}
			return c.BV(uint64(len(v.E)), 64)
		case *Chan:
			if v == nil {
				return c.BV(0, 64)
			}
			return c.BV(uint64(len(v.Buf)), 64)
		case *Cell: // *array
			return c.BV(uint64(len(v.V.(Array))), 64)
		}
	case "cap":
		switch v := args[0].(type) {
		case Slice:
			if v.Lazy != nil {
				return x.lazyLen(v)
			}
			return c.BV(uint64(cap(v.C)), 64)
		case Array:
			return c.BV(uint64(len(v)), 64)
		case *Chan:
			if v == nil {
				return c.BV(0, 64)
			}
			return c.BV(uint64(v.Cap), 64)
		}
	case "append":
		dst := args[0].(Slice)
		var add []Cell
		switch s := args[1].(type) {
		case Slice:
			if s.Lazy != nil {
				s = x.lazyForce(s)
			}
			add = s.C
		case *Str:
			for _, t := range s.B {
				add = append(add, Cell{V: t})
			}
		}
		if dst.Lazy != nil {
			dst = x.lazyForce(dst)
		}
		if len(add) == 0 {
			return dst
		}
		if len(dst.C)+len(add) <= cap(dst.C) {
			n := len(dst.C)
			r := dst.C[:n+len(add)]
			for i := range add {
				x.store(&r[n+i], copyVal(add[i].V))
			}
			return Slice{C: r}
		}
		a := x.newAlloc(x.site(), "append")
		ncap := 2*len(dst.C) + len(add)
		r := make([]Cell, len(dst.C)+len(add), ncap)
		for i := range dst.C {
			r[i] = Cell{V: copyVal(dst.C[i].V), A: a}
		}
		for i := range add {
			r[len(dst.C)+i] = Cell{V: copyVal(add[i].V), A: a}
		}
		full := r[:ncap]
		for i := len(r); i < ncap; i++ {
			full[i].A = a
			if len(r) > 0 {
				full[i].V = zeroLike(x, r[0].V)
			}
		}
		return Slice{C: r}
	case "copy":
		dst := args[0].(Slice)
		if dst.Lazy != nil {
			dst = x.lazyForce(dst)
		}
		var src []Cell
		switch s := args[1].(type) {
		case Slice:
			if s.Lazy != nil {
				s = x.lazyForce(s)
			}
			src = s.C
		case *Str:
			for _, t := range s.B {
				src = append(src, Cell{V: t})
			}
		}
		n := len(dst.C)
		if len(src) < n {
			n = len(src)
		}
		// handle overlap like memmove: snapshot first
		tmp := make([]Value, n)
		for i := 0; i < n; i++ {
			tmp[i] = copyVal(src[i].V)
		}
		for i := 0; i < n; i++ {
			x.store(&dst.C[i], tmp[i])
		}
		return c.BV(uint64(n), 64)
	case "delete":
		x.mapDelete(args[0].(*Map), args[1])
		return nil
	case "close":
		ch := args[0].(*Chan)
		if ch == nil {
			x.goPanicf("close of nil channel")
		}
		if ch.Closed {
			x.goPanicf("close of closed channel")
		}
		ch.Closed = true
		return nil
	case "print", "println":
		return nil
	case "recover":
		// only meaningful inside a deferred call during panicking
		for fr := caller; fr != nil; fr = fr.caller {
			if fr.panicking != nil {
				gp := fr.panicking
				fr.panicking = nil
				return Iface{T: x.eng.errStringPtr, V: &ErrObj{Msg: gp.Msg}}
			}
		}
		return Iface{}
	case "min", "max":
		r := args[0].(*Term)
		signed := isSigned(b.Type().(*types.Signature).Params().At(0).Type())
		for _, a := range args[1:] {
			t := a.(*Term)
			var lt *Term
			if signed {
				lt = c.SLt(t, r)
			} else {
				lt = c.ULt(t, r)
			}
			if b.Name() == "max" {
				lt = c.Not(lt)
				// max: choose t when t >= r
			}
			r = c.Ite(lt, t, r)
		}
		return r
	case "ssa:wrapnilchk":
		if p, ok := args[0].(*Cell); ok && p == nil {
			x.goPanicf("value method called using nil pointer")
		}
		return args[0]
	}
	panic(x.unsupported("builtin " + b.Name()))
}

func zeroLike(x *Exec, v Value) Value {
	switch v := v.(type) {
	case *Term:
		if v.W == 0 {
			return x.ctx.False
		}
		return x.ctx.SBV(0, v.W)
	case *Str:
		return &Str{}
	case *Cell:
		return (*Cell)(nil)
	case Slice:
		return Slice{Nil: true}
	case Iface:
		return Iface{}
	case *Map:
		return (*Map)(nil)
	case Struct:
		n := make(Struct, len(v))
		for i := range v {
			n[i] = Cell{V: zeroLike(x, v[i].V)}
		}
		return n
	case Array:
		n := make(Array, len(v))
		for i := range v {
			n[i] = Cell{V: zeroLike(x, v[i].V)}
		}
		return n
	}
	return nil
}
