package main

// Hash-consed SMT term DAG with eager simplification.
// Sorts: Bool (W==0) and (_ BitVec W).

import (
	"fmt"
	"math/big"
	"math/bits"
	"sort"
	"strings"
)

type Op uint8

const (
	OpConst Op = iota
	OpVar
	OpAdd
	OpSub
	OpMul
	OpUDiv
	OpURem
	OpSDiv
	OpSRem
	OpAnd
	OpOr
	OpXor
	OpNot
	OpNeg
	OpShl
	OpLShr
	OpAShr
	OpConcat
	OpExtract
	OpZExt
	OpSExt
	OpIte
	OpEq
	OpULt
	OpULe
	OpSLt
	OpSLe
	OpBAnd // boolean and
	OpBOr
	OpBNot
	OpApp // uninterpreted function application (Name, args)
	OpRaw // raw SMT-LIB template: Name is a fmt template with one %s per arg
)

var opNames = map[Op]string{
	OpAdd: "bvadd", OpSub: "bvsub", OpMul: "bvmul", OpUDiv: "bvudiv", OpURem: "bvurem",
	OpSDiv: "bvsdiv", OpSRem: "bvsrem", OpAnd: "bvand", OpOr: "bvor", OpXor: "bvxor",
	OpNot: "bvnot", OpNeg: "bvneg", OpShl: "bvshl", OpLShr: "bvlshr", OpAShr: "bvashr",
	OpConcat: "concat", OpIte: "ite", OpEq: "=", OpULt: "bvult", OpULe: "bvule",
	OpSLt: "bvslt", OpSLe: "bvsle", OpBAnd: "and", OpBOr: "or", OpBNot: "not",
}

type Term struct {
	ID   int
	Op   Op
	W    int // 0 = Bool
	Args []*Term
	Val  uint64   // const value (W<=64); bool: 0/1
	Big  *big.Int // const value when W>64
	Name string   // var / app name
	Hi   int      // extract hi, or ext amount
	Lo   int
	KZ   uint64 // bits known to be zero (W<=64)
}

func (t *Term) IsConst() bool { return t.Op == OpConst }
func (t *Term) IsBool() bool  { return t.W == 0 }
func (t *Term) IsTrue() bool  { return t.Op == OpConst && t.W == 0 && t.Val == 1 }
func (t *Term) IsFalse() bool { return t.Op == OpConst && t.W == 0 && t.Val == 0 }

// Ctx owns a term table (one per worker).
type Ctx struct {
	tab    map[string]*Term
	nextID int
	Vars   []*Term // declared variables in order of creation
	Funs   map[string]string // uninterpreted function decls name -> decl text
	True   *Term
	False  *Term
	varIdx  map[int]int      // var term ID -> index
	varSets map[int]*big.Int // memo: term ID -> set of variable indices
}

func NewCtx() *Ctx {
	c := &Ctx{tab: map[string]*Term{}, Funs: map[string]string{}, varIdx: map[int]int{}, varSets: map[int]*big.Int{}}
	c.True = c.mk(&Term{Op: OpConst, W: 0, Val: 1})
	c.False = c.mk(&Term{Op: OpConst, W: 0, Val: 0})
	return c
}

func (c *Ctx) key(t *Term) string {
	var sb strings.Builder
	fmt.Fprintf(&sb, "%d:%d:", t.Op, t.W)
	switch t.Op {
	case OpConst:
		if t.Big != nil {
			sb.WriteString(t.Big.Text(16))
		} else {
			fmt.Fprintf(&sb, "%x", t.Val)
		}
	case OpVar:
		sb.WriteString(t.Name)
	case OpApp, OpRaw:
		sb.WriteString(t.Name)
		sb.WriteByte(':')
	case OpExtract, OpZExt, OpSExt:
		fmt.Fprintf(&sb, "%d,%d:", t.Hi, t.Lo)
	}
	for _, a := range t.Args {
		fmt.Fprintf(&sb, "%d,", a.ID)
	}
	return sb.String()
}

func (c *Ctx) mk(t *Term) *Term {
	k := c.key(t)
	if e, ok := c.tab[k]; ok {
		return e
	}
	t.ID = c.nextID
	c.nextID++
	t.KZ = knownZero(t)
	c.tab[k] = t
	if t.Op == OpVar {
		c.varIdx[t.ID] = len(c.Vars)
		c.Vars = append(c.Vars, t)
	}
	return t
}

// VarSet returns the set of variables (and uninterpreted applications, conservatively as one shared pseudo-variable)
// occurring in t.
func (c *Ctx) VarSet(t *Term) *big.Int {
	if s, ok := c.varSets[t.ID]; ok {
		return s
	}
	s := new(big.Int)
	switch t.Op {
	case OpVar:
		s.SetBit(s, c.varIdx[t.ID]+1, 1)
	case OpApp, OpRaw:
		s.SetBit(s, 0, 1)
		for _, a := range t.Args {
			s.Or(s, c.VarSet(a))
		}
	default:
		for _, a := range t.Args {
			s.Or(s, c.VarSet(a))
		}
	}
	c.varSets[t.ID] = s
	return s
}

// knownZero computes a mask of bits that are zero for every value of the term's variables.
func knownZero(t *Term) uint64 {
	if t.W == 0 || t.W > 64 {
		return 0
	}
	m := mask(t.W)
	switch t.Op {
	case OpConst:
		return ^t.Val & m
	case OpAnd:
		return (t.Args[0].KZ | t.Args[1].KZ) & m
	case OpOr, OpXor:
		kz := t.Args[0].KZ & t.Args[1].KZ
		if t.Op == OpXor {
			// X ^ (K & replicate(bit k of X)) with bit k of K set clears bit k
			for i := 0; i < 2; i++ {
				x, y := t.Args[i], t.Args[1-i]
				if y.Op == OpAnd && y.Args[1].IsConst() && y.Args[1].Big == nil && y.Args[0].Op == OpSExt {
					e := y.Args[0].Args[0]
					if e.Op == OpExtract && e.W == 1 && e.Args[0] == x && y.Args[1].Val>>uint(e.Lo)&1 == 1 {
						kz |= uint64(1) << uint(e.Lo)
					}
				}
			}
		}
		return kz & m
	case OpConcat:
		var kz uint64
		for _, a := range t.Args {
			if a.W > 64 {
				return 0
			}
			kz = kz<<uint(a.W) | a.KZ
		}
		return kz & m
	case OpExtract:
		if t.Args[0].W > 64 {
			return 0
		}
		return (t.Args[0].KZ >> uint(t.Lo)) & m
	case OpZExt:
		iw := t.Args[0].W
		return (t.Args[0].KZ | (m &^ mask(iw))) & m
	case OpSExt:
		iw := t.Args[0].W
		kz := t.Args[0].KZ
		if kz&(uint64(1)<<uint(iw-1)) != 0 {
			kz |= m &^ mask(iw)
		}
		return kz & m
	case OpIte:
		a, b := t.Args[1], t.Args[2]
		kz := a.KZ & b.KZ
		// ite(bit k of X set, X xor K, X) with bit k of K set: bit k of the result is zero
		if k, x, ok := singleBitTest(t.Args[0]); ok {
			if x == b && a.Op == OpXor && a.Args[0] == x && a.Args[1].IsConst() && a.Args[1].Big == nil && a.Args[1].Val&(uint64(1)<<uint(k)) != 0 {
				// bit k is cleared on both sides; other bits are zero if zero in X and in K
				kz |= b.KZ & (^a.Args[1].Val)
				kz |= uint64(1) << uint(k)
			}
		}
		return kz & m
	}
	return 0
}

// singleBitTest recognises conditions of the form "bit k of X is 1": not(X & 2^k == 0), or extract[k:k](X) == 1.
func singleBitTest(c *Term) (int, *Term, bool) {
	if c.Op == OpBNot && c.Args[0].Op == OpEq {
		e := c.Args[0]
		l, r := e.Args[0], e.Args[1]
		if r.IsConst() && r.Big == nil && r.Val == 0 && l.Op == OpAnd && l.Args[1].IsConst() && l.Args[1].Big == nil {
			mv := l.Args[1].Val
			if mv != 0 && mv&(mv-1) == 0 {
				return bits.TrailingZeros64(mv), l.Args[0], true
			}
		}
	}
	if c.Op == OpEq && c.Args[0].Op == OpExtract && c.Args[0].W == 1 && c.Args[1].IsConst() && c.Args[1].Val == 1 {
		return c.Args[0].Lo, c.Args[0].Args[0], true
	}
	return 0, nil, false
}

func mask(w int) uint64 {
	if w >= 64 {
		return ^uint64(0)
	}
	return (uint64(1) << uint(w)) - 1
}

func (c *Ctx) Bool(b bool) *Term {
	if b {
		return c.True
	}
	return c.False
}

func (c *Ctx) BV(v uint64, w int) *Term {
	if w <= 0 {
		panic("BV width")
	}
	if w > 64 {
		return c.BigBV(new(big.Int).SetUint64(v), w)
	}
	return c.mk(&Term{Op: OpConst, W: w, Val: v & mask(w)})
}

func bigMask(w int) *big.Int {
	m := new(big.Int).Lsh(big.NewInt(1), uint(w))
	return m.Sub(m, big.NewInt(1))
}

func (c *Ctx) BigBV(v *big.Int, w int) *Term {
	x := new(big.Int).And(v, bigMask(w)) // two's complement wrap (And on negative works in Go as infinite 2's complement)
	if w <= 64 {
		return c.BV(x.Uint64(), w)
	}
	return c.mk(&Term{Op: OpConst, W: w, Big: x})
}

// SBV builds a constant from a signed value.
func (c *Ctx) SBV(v int64, w int) *Term {
	if w > 64 {
		return c.BigBV(big.NewInt(v), w)
	}
	return c.BV(uint64(v), w)
}

func (c *Ctx) Var(name string, w int) *Term {
	return c.mk(&Term{Op: OpVar, W: w, Name: name})
}

func (c *Ctx) App(name string, w int, args ...*Term) *Term {
	if _, ok := c.Funs[name]; !ok {
		var sb strings.Builder
		fmt.Fprintf(&sb, "(declare-fun %s (", smtSym(name))
		for _, a := range args {
			sb.WriteString(sortStr(a.W))
			sb.WriteByte(' ')
		}
		fmt.Fprintf(&sb, ") %s)", sortStr(w))
		c.Funs[name] = sb.String()
	}
	return c.mk(&Term{Op: OpApp, W: w, Name: name, Args: args})
}

// Raw builds a term from an SMT-LIB template (theory operators the DAG does not model, e.g. floating point).
func (c *Ctx) Raw(tmpl string, w int, args ...*Term) *Term {
	return c.mk(&Term{Op: OpRaw, W: w, Name: tmpl, Args: args})
}

func sortStr(w int) string {
	if w == 0 {
		return "Bool"
	}
	return fmt.Sprintf("(_ BitVec %d)", w)
}

// signed value of a const (W<=64)
func (t *Term) SVal() int64 {
	if t.W >= 64 {
		return int64(t.Val)
	}
	if t.Val&(uint64(1)<<uint(t.W-1)) != 0 {
		return int64(t.Val | ^mask(t.W))
	}
	return int64(t.Val)
}

func (t *Term) BigVal() *big.Int {
	if t.Big != nil {
		return new(big.Int).Set(t.Big)
	}
	return new(big.Int).SetUint64(t.Val)
}

func (t *Term) BigSVal() *big.Int {
	v := t.BigVal()
	if v.Bit(t.W-1) == 1 {
		v.Sub(v, new(big.Int).Lsh(big.NewInt(1), uint(t.W)))
	}
	return v
}

func (c *Ctx) bin(op Op, a, b *Term) *Term {
	if a.W != b.W {
		panic(fmt.Sprintf("width mismatch %s: %d vs %d", opNames[op], a.W, b.W))
	}
	w := a.W
	if a.IsConst() && b.IsConst() {
		if w <= 64 {
			x, y := a.Val, b.Val
			switch op {
			case OpAdd:
				return c.BV(x+y, w)
			case OpSub:
				return c.BV(x-y, w)
			case OpMul:
				return c.BV(x*y, w)
			case OpUDiv:
				if y == 0 {
					return c.BV(mask(w), w)
				}
				return c.BV(x/y, w)
			case OpURem:
				if y == 0 {
					return a
				}
				return c.BV(x%y, w)
			case OpSDiv:
				sx, sy := a.SVal(), b.SVal()
				if sy == 0 {
					if sx < 0 {
						return c.BV(1, w)
					}
					return c.BV(mask(w), w)
				}
				if sy == -1 {
					return c.BV(uint64(-sx), w)
				}
				return c.BV(uint64(sx/sy), w)
			case OpSRem:
				sx, sy := a.SVal(), b.SVal()
				if sy == 0 {
					return a
				}
				if sy == -1 {
					return c.BV(0, w)
				}
				return c.BV(uint64(sx%sy), w)
			case OpAnd:
				return c.BV(x&y, w)
			case OpOr:
				return c.BV(x|y, w)
			case OpXor:
				return c.BV(x^y, w)
			case OpShl:
				if y >= uint64(w) {
					return c.BV(0, w)
				}
				return c.BV(x<<y, w)
			case OpLShr:
				if y >= uint64(w) {
					return c.BV(0, w)
				}
				return c.BV(x>>y, w)
			case OpAShr:
				sx := a.SVal()
				if y >= uint64(w) {
					y = uint64(w - 1)
				}
				return c.BV(uint64(sx>>y), w)
			}
		} else {
			x, y := a.BigVal(), b.BigVal()
			switch op {
			case OpAdd:
				return c.BigBV(x.Add(x, y), w)
			case OpSub:
				return c.BigBV(x.Sub(x, y), w)
			case OpMul:
				return c.BigBV(x.Mul(x, y), w)
			case OpAnd:
				return c.BigBV(x.And(x, y), w)
			case OpOr:
				return c.BigBV(x.Or(x, y), w)
			case OpXor:
				return c.BigBV(x.Xor(x, y), w)
			case OpShl:
				if y.Cmp(big.NewInt(int64(w))) >= 0 {
					return c.BigBV(big.NewInt(0), w)
				}
				return c.BigBV(x.Lsh(x, uint(y.Uint64())), w)
			case OpLShr:
				if y.Cmp(big.NewInt(int64(w))) >= 0 {
					return c.BigBV(big.NewInt(0), w)
				}
				return c.BigBV(x.Rsh(x, uint(y.Uint64())), w)
			case OpAShr:
				sx := a.BigSVal()
				sh := uint(w - 1)
				if y.Cmp(big.NewInt(int64(w))) < 0 {
					sh = uint(y.Uint64())
				}
				return c.BigBV(sx.Rsh(sx, sh), w)
			}
		}
	}
	// identities
	isZero := func(t *Term) bool { return t.IsConst() && ((t.Big == nil && t.Val == 0) || (t.Big != nil && t.Big.Sign() == 0)) }
	isOnes := func(t *Term) bool {
		return t.IsConst() && ((t.Big == nil && t.Val == mask(w)) || (t.Big != nil && t.Big.Cmp(bigMask(w)) == 0))
	}
	switch op {
	case OpAdd, OpOr, OpXor:
		if isZero(a) {
			return b
		}
		if isZero(b) {
			return a
		}
		if op == OpXor && a == b {
			return c.SBV(0, w)
		}
		if op == OpOr && a == b {
			return a
		}
		if op == OpOr && (isOnes(a) || isOnes(b)) {
			return c.SBV(-1, w)
		}
	case OpSub:
		if isZero(b) {
			return a
		}
		if a == b {
			return c.SBV(0, w)
		}
	case OpAnd:
		if isZero(a) || isZero(b) {
			return c.SBV(0, w)
		}
		if isOnes(a) {
			return b
		}
		if isOnes(b) {
			return a
		}
		if a == b {
			return a
		}
		if w <= 64 {
			if b.IsConst() && (mask(w)&^a.KZ)&^b.Val == 0 {
				return a
			}
			if a.IsConst() && (mask(w)&^b.KZ)&^a.Val == 0 {
				return b
			}
			if a.KZ|b.KZ == mask(w) {
				return c.SBV(0, w)
			}
		}
		// and with low mask constant -> zero-extend of extract
		if w <= 64 {
			if k, x := b, a; true {
				if a.IsConst() {
					k, x = a, b
				}
				if k.IsConst() && k.Val != 0 && (k.Val&(k.Val+1)) == 0 {
					n := bits.Len64(k.Val)
					if n < w {
						return c.ZExt(c.Extract(x, n-1, 0), w-n)
					}
				}
			}
		}
	case OpMul:
		if isZero(a) || isZero(b) {
			return c.SBV(0, w)
		}
		if a.IsConst() && a.Big == nil && a.Val == 1 {
			return b
		}
		if b.IsConst() && b.Big == nil && b.Val == 1 {
			return a
		}
	case OpShl, OpLShr, OpAShr:
		if isZero(b) {
			return a
		}
		if isZero(a) {
			return a
		}
		if b.IsConst() && b.Big == nil && w <= 64 {
			k := int(b.Val)
			if b.Val >= uint64(w) {
				if op == OpAShr {
					k = w - 1
				} else {
					return c.BV(0, w)
				}
			}
			switch op {
			case OpShl:
				// x << k = concat(extract[w-1-k:0](x), 0_k)
				return c.Concat(c.Extract(a, w-1-k, 0), c.BV(0, k))
			case OpLShr:
				return c.ZExt(c.Extract(a, w-1, k), k)
			case OpAShr:
				return c.SExt(c.Extract(a, w-1, k), k)
			}
		}
	case OpUDiv:
		if b.IsConst() && b.Big == nil && b.Val == 1 {
			return a
		}
	}
	// commutative normalisation: const second, otherwise by ID
	switch op {
	case OpAdd, OpMul, OpAnd, OpOr, OpXor:
		if a.IsConst() && !b.IsConst() {
			a, b = b, a
		} else if !a.IsConst() && !b.IsConst() && a.ID > b.ID {
			a, b = b, a
		}
	}
	// or of disjoint zero-extended / shifted parts -> concat (byte reassembly)
	if op == OpOr || op == OpAdd || op == OpXor {
		if r := c.tryDisjointOr(a, b); r != nil {
			return r
		}
	}
	return c.mk(&Term{Op: op, W: w, Args: []*Term{a, b}})
}

// knownZeroMask returns a bitmask (W<=64) of bits known to be zero, and pieces.
// tryDisjointOr recognises patterns like concat(X,0_k) | zext(Y) where Y fits in the zero part.
func (c *Ctx) tryDisjointOr(a, b *Term) *Term {
	w := a.W
	if w > 64 {
		return nil
	}
	pa, oka := c.pieces(a)
	pb, okb := c.pieces(b)
	if !oka || !okb {
		return nil
	}
	// pieces: list of (term or nil for zero, width) from high to low
	// merge if at every bit position at least one is zero-piece. Split to common boundaries.
	type seg struct {
		t *Term
		w int
	}
	var out []seg
	ia, ib := 0, 0
	ra, rb := pa, pb
	_ = ra
	_ = rb
	curA, curB := seg{}, seg{}
	next := func(ps []piece, i *int) (seg, bool) {
		if *i >= len(ps) {
			return seg{}, false
		}
		p := ps[*i]
		*i++
		return seg{p.t, p.w}, true
	}
	var ok bool
	curA, ok = next(pa, &ia)
	if !ok {
		return nil
	}
	curB, ok = next(pb, &ib)
	if !ok {
		return nil
	}
	for {
		n := curA.w
		if curB.w < n {
			n = curB.w
		}
		// take top n bits of each
		takeTop := func(s seg) (*Term, seg) {
			if s.t == nil {
				return nil, seg{nil, s.w - n}
			}
			if s.w == n {
				return s.t, seg{nil, 0}
			}
			return c.Extract(s.t, s.w-1, s.w-n), seg{c.Extract(s.t, s.w-n-1, 0), s.w - n}
		}
		ta, restA := takeTop(curA)
		tb, restB := takeTop(curB)
		if ta != nil && tb != nil {
			return nil
		}
		if ta != nil {
			out = append(out, seg{ta, n})
		} else {
			out = append(out, seg{tb, n})
		}
		curA, curB = restA, restB
		if curA.w == 0 {
			curA, ok = next(pa, &ia)
			if !ok {
				break
			}
		}
		if curB.w == 0 {
			curB, ok = next(pb, &ib)
			if !ok {
				break
			}
		}
	}
	var res *Term
	for _, s := range out {
		var t *Term
		if s.t == nil {
			t = c.BV(0, s.w)
		} else {
			t = s.t
		}
		if res == nil {
			res = t
		} else {
			res = c.Concat(res, t)
		}
	}
	if res == nil || res.W != w {
		return nil
	}
	return res
}

type piece struct {
	t *Term // nil = zeros
	w int
}

// pieces decomposes t into zero and non-zero segments (high to low) if it has known zero parts.
func (c *Ctx) pieces(t *Term) ([]piece, bool) {
	switch t.Op {
	case OpConst:
		if t.Big == nil && t.Val == 0 {
			return []piece{{nil, t.W}}, true
		}
		return nil, false
	case OpZExt:
		return []piece{{nil, t.Hi}, {t.Args[0], t.Args[0].W}}, true
	case OpConcat:
		var out []piece
		any := false
		for _, a := range t.Args {
			if a.IsConst() && a.Big == nil && a.Val == 0 {
				out = append(out, piece{nil, a.W})
				any = true
			} else if a.Op == OpZExt {
				out = append(out, piece{nil, a.Hi}, piece{a.Args[0], a.Args[0].W})
				any = true
			} else {
				out = append(out, piece{a, a.W})
			}
		}
		return out, any
	}
	return nil, false
}

func (c *Ctx) Add(a, b *Term) *Term  { return c.bin(OpAdd, a, b) }
func (c *Ctx) Sub(a, b *Term) *Term  { return c.bin(OpSub, a, b) }
func (c *Ctx) Mul(a, b *Term) *Term  { return c.bin(OpMul, a, b) }
func (c *Ctx) UDiv(a, b *Term) *Term { return c.bin(OpUDiv, a, b) }
func (c *Ctx) URem(a, b *Term) *Term { return c.bin(OpURem, a, b) }
func (c *Ctx) SDiv(a, b *Term) *Term { return c.bin(OpSDiv, a, b) }
func (c *Ctx) SRem(a, b *Term) *Term { return c.bin(OpSRem, a, b) }
func (c *Ctx) And(a, b *Term) *Term  { return c.bin(OpAnd, a, b) }
func (c *Ctx) Or(a, b *Term) *Term   { return c.bin(OpOr, a, b) }
func (c *Ctx) Xor(a, b *Term) *Term  { return c.bin(OpXor, a, b) }
func (c *Ctx) Shl(a, b *Term) *Term  { return c.bin(OpShl, a, b) }
func (c *Ctx) LShr(a, b *Term) *Term { return c.bin(OpLShr, a, b) }
func (c *Ctx) AShr(a, b *Term) *Term { return c.bin(OpAShr, a, b) }

func (c *Ctx) BVNot(a *Term) *Term {
	if a.IsConst() {
		if a.Big != nil {
			return c.BigBV(new(big.Int).Xor(a.Big, bigMask(a.W)), a.W)
		}
		return c.BV(^a.Val, a.W)
	}
	if a.Op == OpNot {
		return a.Args[0]
	}
	return c.mk(&Term{Op: OpNot, W: a.W, Args: []*Term{a}})
}

func (c *Ctx) Neg(a *Term) *Term {
	if a.IsConst() {
		if a.Big != nil {
			return c.BigBV(new(big.Int).Neg(a.Big), a.W)
		}
		return c.BV(-a.Val, a.W)
	}
	return c.mk(&Term{Op: OpNeg, W: a.W, Args: []*Term{a}})
}

// Concat: a is the high part.
func (c *Ctx) Concat(a, b *Term) *Term {
	w := a.W + b.W
	if a.IsConst() && b.IsConst() {
		if w <= 64 {
			return c.BV(a.Val<<uint(b.W)|b.Val, w)
		}
		x := a.BigVal()
		x.Lsh(x, uint(b.W))
		x.Or(x, b.BigVal())
		return c.BigBV(x, w)
	}
	// flatten
	var parts []*Term
	add := func(t *Term) {
		if t.Op == OpConcat {
			parts = append(parts, t.Args...)
		} else {
			parts = append(parts, t)
		}
	}
	add(a)
	add(b)
	// merge adjacent
	var out []*Term
	for _, p := range parts {
		if len(out) > 0 {
			l := out[len(out)-1]
			if m := c.mergeAdj(l, p); m != nil {
				out[len(out)-1] = m
				continue
			}
		}
		out = append(out, p)
	}
	if len(out) == 1 {
		return out[0]
	}
	// zero high part => zext
	if out[0].IsConst() && out[0].Big == nil && out[0].Val == 0 && out[0].W <= 64 {
		rest := c.mkConcat(out[1:])
		return c.ZExt(rest, out[0].W)
	}
	return c.mkConcat(out)
}

func (c *Ctx) mkConcat(parts []*Term) *Term {
	if len(parts) == 1 {
		return parts[0]
	}
	w := 0
	for _, p := range parts {
		w += p.W
	}
	cp := make([]*Term, len(parts))
	copy(cp, parts)
	return c.mk(&Term{Op: OpConcat, W: w, Args: cp})
}

func (c *Ctx) mergeAdj(l, r *Term) *Term {
	if l.IsConst() && r.IsConst() {
		w := l.W + r.W
		if w <= 64 {
			return c.BV(l.Val<<uint(r.W)|r.Val, w)
		}
		x := l.BigVal()
		x.Lsh(x, uint(r.W))
		x.Or(x, r.BigVal())
		return c.BigBV(x, w)
	}
	if l.Op == OpExtract && r.Op == OpExtract && l.Args[0] == r.Args[0] && l.Lo == r.Hi+1 {
		return c.Extract(l.Args[0], l.Hi, r.Lo)
	}
	if l.Op == OpZExt {
		if m := c.mergeAdj(l.Args[0], r); m != nil {
			return c.ZExt(m, l.Hi)
		}
	}
	if l.Op == OpNot && r.Op == OpNot {
		if m := c.mergeAdj(l.Args[0], r.Args[0]); m != nil {
			return c.BVNot(m)
		}
	}
	return nil
}

func (c *Ctx) Extract(a *Term, hi, lo int) *Term {
	if hi < lo || hi >= a.W || lo < 0 {
		panic(fmt.Sprintf("bad extract [%d:%d] of width %d", hi, lo, a.W))
	}
	if lo == 0 && hi == a.W-1 {
		return a
	}
	w := hi - lo + 1
	if a.W <= 64 && a.Op != OpConst {
		rng := mask(w) << uint(lo)
		if a.KZ&rng == rng {
			return c.SBV(0, w)
		}
	}
	switch a.Op {
	case OpConst:
		if a.Big != nil {
			x := new(big.Int).Rsh(a.Big, uint(lo))
			return c.BigBV(x, w)
		}
		return c.BV(a.Val>>uint(lo), w)
	case OpExtract:
		return c.Extract(a.Args[0], a.Lo+hi, a.Lo+lo)
	case OpConcat:
		// find parts covering [hi:lo]
		pos := a.W
		var parts []*Term
		for _, p := range a.Args {
			phi := pos - 1
			plo := pos - p.W
			pos = plo
			if plo > hi || phi < lo {
				continue
			}
			h := hi
			if phi < h {
				h = phi
			}
			l := lo
			if plo > l {
				l = plo
			}
			parts = append(parts, c.Extract(p, h-plo, l-plo))
		}
		res := parts[0]
		for _, p := range parts[1:] {
			res = c.Concat(res, p)
		}
		return res
	case OpZExt:
		iw := a.Args[0].W
		if hi < iw {
			return c.Extract(a.Args[0], hi, lo)
		}
		if lo >= iw {
			return c.SBV(0, w)
		}
		return c.ZExt(c.Extract(a.Args[0], iw-1, lo), hi-iw+1)
	case OpSExt:
		iw := a.Args[0].W
		if hi < iw {
			return c.Extract(a.Args[0], hi, lo)
		}
		if lo < iw {
			return c.SExt(c.Extract(a.Args[0], iw-1, lo), hi-iw+1)
		}
	case OpAnd, OpOr, OpXor:
		// push extract through bitwise ops when one side is constant (mask patterns)
		if a.Args[1].IsConst() || a.Args[0].IsConst() {
			return c.bin(a.Op, c.Extract(a.Args[0], hi, lo), c.Extract(a.Args[1], hi, lo))
		}
	case OpNot:
		return c.BVNot(c.Extract(a.Args[0], hi, lo))
	case OpIte:
		if a.Args[1].IsConst() && a.Args[2].IsConst() {
			return c.Ite(a.Args[0], c.Extract(a.Args[1], hi, lo), c.Extract(a.Args[2], hi, lo))
		}
	case OpAdd, OpSub, OpMul:
		if lo == 0 {
			// low bits of add/sub/mul depend only on low bits
			return c.bin(a.Op, c.Extract(a.Args[0], hi, 0), c.Extract(a.Args[1], hi, 0))
		}
	}
	return c.mk(&Term{Op: OpExtract, W: w, Args: []*Term{a}, Hi: hi, Lo: lo})
}

func (c *Ctx) ZExt(a *Term, k int) *Term {
	if k == 0 {
		return a
	}
	if a.IsConst() {
		return c.BigBV(a.BigVal(), a.W+k)
	}
	if a.Op == OpZExt {
		return c.ZExt(a.Args[0], a.Hi+k)
	}
	if a.Op == OpExtract && a.Lo == 0 && a.Args[0].W == a.W+k && a.W+k <= 64 {
		t := a.Args[0]
		hiMask := mask(t.W) &^ mask(a.W)
		if t.KZ&hiMask == hiMask {
			return t
		}
	}
	return c.mk(&Term{Op: OpZExt, W: a.W + k, Args: []*Term{a}, Hi: k})
}

func (c *Ctx) SExt(a *Term, k int) *Term {
	if k == 0 {
		return a
	}
	if a.IsConst() {
		return c.BigBV(a.BigSVal(), a.W+k)
	}
	if a.Op == OpSExt {
		return c.SExt(a.Args[0], a.Hi+k)
	}
	if a.Op == OpZExt {
		return c.ZExt(a.Args[0], a.Hi+k)
	}
	return c.mk(&Term{Op: OpSExt, W: a.W + k, Args: []*Term{a}, Hi: k})
}

// Resize converts to width w, sign- or zero-extending or truncating.
func (c *Ctx) Resize(a *Term, w int, signed bool) *Term {
	if a.W == w {
		return a
	}
	if a.W > w {
		return c.Extract(a, w-1, 0)
	}
	if signed {
		return c.SExt(a, w-a.W)
	}
	return c.ZExt(a, w-a.W)
}

func (c *Ctx) Ite(cond, a, b *Term) *Term {
	if cond.IsTrue() {
		return a
	}
	if cond.IsFalse() {
		return b
	}
	if a == b {
		return a
	}
	if a.W == 0 {
		if a.IsTrue() && b.IsFalse() {
			return cond
		}
		if a.IsFalse() && b.IsTrue() {
			return c.Not(cond)
		}
	}
	// conditional xor with a constant: ite(c, x^K, x) = x ^ (K & replicate(c)). Keeps CRC-style loops free of
	// if-then-else towers (which blow up the SMT solver's rewriter) and in one canonical XOR/AND form.
	if a.W >= 2 && a.W <= 64 {
		if a.Op == OpXor && a.Args[0] == b && a.Args[1].IsConst() {
			return c.Xor(b, c.And(a.Args[1], c.SExt(c.BoolToBit(cond), a.W-1)))
		}
		if b.Op == OpXor && b.Args[0] == a && b.Args[1].IsConst() {
			return c.Xor(a, c.And(b.Args[1], c.SExt(c.BoolToBit(c.Not(cond)), a.W-1)))
		}
	}
	return c.mk(&Term{Op: OpIte, W: a.W, Args: []*Term{cond, a, b}})
}

// BoolToBit converts a Boolean to a 1-bit vector; single-bit tests become the tested bit itself.
func (c *Ctx) BoolToBit(cond *Term) *Term {
	if cond.IsConst() {
		return c.BV(cond.Val, 1)
	}
	if k, x, ok := singleBitTest(cond); ok && x.W <= 64 {
		return c.Extract(x, k, k)
	}
	if cond.Op == OpBNot {
		if k, x, ok := singleBitTest(cond.Args[0]); ok && x.W <= 64 {
			return c.BVNot(c.Extract(x, k, k))
		}
	}
	return c.mk(&Term{Op: OpIte, W: 1, Args: []*Term{cond, c.BV(1, 1), c.BV(0, 1)}})
}

func (c *Ctx) Eq(a, b *Term) *Term {
	if a.W != b.W {
		panic(fmt.Sprintf("eq width mismatch %d vs %d", a.W, b.W))
	}
	if a == b {
		return c.True
	}
	if a.IsConst() && b.IsConst() {
		if a.Big != nil || b.Big != nil {
			return c.Bool(a.BigVal().Cmp(b.BigVal()) == 0)
		}
		return c.Bool(a.Val == b.Val)
	}
	if a.W == 0 {
		if a.IsTrue() {
			return b
		}
		if b.IsTrue() {
			return a
		}
		if a.IsFalse() {
			return c.Not(b)
		}
		if b.IsFalse() {
			return c.Not(a)
		}
	}
	if a.IsConst() {
		a, b = b, a
	}
	// structural splitting: concat vs const / concat with same layout
	if a.Op == OpConcat && (b.IsConst() || b.Op == OpConcat) {
		pos := a.W
		res := c.True
		for _, p := range a.Args {
			lo := pos - p.W
			res = c.BAnd(res, c.Eq(p, c.Extract(b, pos-1, lo)))
			pos = lo
			if res.IsFalse() {
				return res
			}
		}
		return res
	}
	if a.Op == OpZExt && b.IsConst() && b.W <= 64 {
		iw := a.Args[0].W
		if b.Val>>uint(iw) != 0 {
			return c.False
		}
		return c.Eq(a.Args[0], c.BV(b.Val, iw))
	}
	if a.Op == OpZExt && b.Op == OpZExt && a.Hi == b.Hi {
		return c.Eq(a.Args[0], b.Args[0])
	}
	if a.Op == OpSExt && b.Op == OpSExt && a.Hi == b.Hi {
		return c.Eq(a.Args[0], b.Args[0])
	}
	if a.Op == OpIte && b.IsConst() && a.Args[1].IsConst() && a.Args[2].IsConst() {
		return c.Ite(a.Args[0], c.Eq(a.Args[1], b), c.Eq(a.Args[2], b))
	}
	if !b.IsConst() && a.ID > b.ID {
		a, b = b, a
	}
	return c.mk(&Term{Op: OpEq, W: 0, Args: []*Term{a, b}})
}

func (c *Ctx) cmp(op Op, a, b *Term) *Term {
	if a.W != b.W {
		panic("cmp width mismatch")
	}
	if a.IsConst() && b.IsConst() {
		var r bool
		if a.W <= 64 {
			switch op {
			case OpULt:
				r = a.Val < b.Val
			case OpULe:
				r = a.Val <= b.Val
			case OpSLt:
				r = a.SVal() < b.SVal()
			case OpSLe:
				r = a.SVal() <= b.SVal()
			}
		} else {
			switch op {
			case OpULt:
				r = a.BigVal().Cmp(b.BigVal()) < 0
			case OpULe:
				r = a.BigVal().Cmp(b.BigVal()) <= 0
			case OpSLt:
				r = a.BigSVal().Cmp(b.BigSVal()) < 0
			case OpSLe:
				r = a.BigSVal().Cmp(b.BigSVal()) <= 0
			}
		}
		return c.Bool(r)
	}
	if a == b {
		return c.Bool(op == OpULe || op == OpSLe)
	}
	if a.W <= 64 {
		// x <u 0 false; 0 <=u x true
		if op == OpULt && b.IsConst() && b.Val == 0 {
			return c.False
		}
		if op == OpULe && a.IsConst() && a.Val == 0 {
			return c.True
		}
		// zext(x) signed compare with small non-negative const: decide by range
		if a.Op == OpZExt && b.IsConst() {
			iw := a.Args[0].W
			switch op {
			case OpSLt, OpULt:
				if op == OpSLt && b.SVal() <= 0 {
					return c.False
				}
				if b.Val > mask(iw) && (op == OpULt || b.SVal() > 0) {
					return c.True
				}
			case OpSLe, OpULe:
				if op == OpSLe && b.SVal() < 0 {
					return c.False
				}
				if b.Val >= mask(iw) && (op == OpULe || b.SVal() > 0) {
					return c.True
				}
			}
		}
		if b.Op == OpZExt && a.IsConst() {
			iw := b.Args[0].W
			switch op {
			case OpSLt:
				if a.SVal() < 0 {
					return c.True
				}
				if a.Val >= mask(iw) {
					return c.False
				}
			case OpSLe:
				if a.SVal() <= 0 {
					return c.True
				}
				if a.Val > mask(iw) {
					return c.False
				}
			case OpULt:
				if a.Val >= mask(iw) {
					return c.False
				}
			case OpULe:
				if a.Val > mask(iw) {
					return c.False
				}
			}
		}
	}
	return c.mk(&Term{Op: op, W: 0, Args: []*Term{a, b}})
}

func (c *Ctx) ULt(a, b *Term) *Term { return c.cmp(OpULt, a, b) }
func (c *Ctx) ULe(a, b *Term) *Term { return c.cmp(OpULe, a, b) }
func (c *Ctx) SLt(a, b *Term) *Term { return c.cmp(OpSLt, a, b) }
func (c *Ctx) SLe(a, b *Term) *Term { return c.cmp(OpSLe, a, b) }

func (c *Ctx) Not(a *Term) *Term {
	if a.W != 0 {
		panic("Not on non-bool")
	}
	if a.IsTrue() {
		return c.False
	}
	if a.IsFalse() {
		return c.True
	}
	if a.Op == OpBNot {
		return a.Args[0]
	}
	// one-bit equality with a constant: flip the constant instead of negating
	if a.Op == OpEq && a.Args[0].W == 1 && a.Args[1].IsConst() {
		return c.Eq(a.Args[0], c.BV(a.Args[1].Val^1, 1))
	}
	return c.mk(&Term{Op: OpBNot, W: 0, Args: []*Term{a}})
}

func (c *Ctx) BAnd(a, b *Term) *Term {
	if a.IsFalse() || b.IsFalse() {
		return c.False
	}
	if a.IsTrue() {
		return b
	}
	if b.IsTrue() {
		return a
	}
	if a == b {
		return a
	}
	if c.Not(a) == b {
		return c.False
	}
	var args []*Term
	for _, t := range []*Term{a, b} {
		if t.Op == OpBAnd {
			args = append(args, t.Args...)
		} else {
			args = append(args, t)
		}
	}
	args = dedupSort(args)
	if len(args) == 1 {
		return args[0]
	}
	return c.mk(&Term{Op: OpBAnd, W: 0, Args: args})
}

func (c *Ctx) BOr(a, b *Term) *Term {
	if a.IsTrue() || b.IsTrue() {
		return c.True
	}
	if a.IsFalse() {
		return b
	}
	if b.IsFalse() {
		return a
	}
	if a == b {
		return a
	}
	if c.Not(a) == b {
		return c.True
	}
	var args []*Term
	for _, t := range []*Term{a, b} {
		if t.Op == OpBOr {
			args = append(args, t.Args...)
		} else {
			args = append(args, t)
		}
	}
	args = dedupSort(args)
	if len(args) == 1 {
		return args[0]
	}
	return c.mk(&Term{Op: OpBOr, W: 0, Args: args})
}

func (c *Ctx) AndAll(ts []*Term) *Term {
	r := c.True
	for _, t := range ts {
		r = c.BAnd(r, t)
	}
	return r
}

func (c *Ctx) Implies(a, b *Term) *Term { return c.BOr(c.Not(a), b) }

func dedupSort(ts []*Term) []*Term {
	sort.Slice(ts, func(i, j int) bool { return ts[i].ID < ts[j].ID })
	out := ts[:0]
	for i, t := range ts {
		if i > 0 && ts[i-1] == t {
			continue
		}
		out = append(out, t)
	}
	cp := make([]*Term, len(out))
	copy(cp, out)
	return cp
}

// ---------- SMT-LIB printing ----------

func smtSym(name string) string {
	ok := true
	for _, r := range name {
		if !(r >= 'a' && r <= 'z' || r >= 'A' && r <= 'Z' || r >= '0' && r <= '9' || r == '_' || r == '.' || r == '$' || r == '!') {
			ok = false
			break
		}
	}
	if ok && name != "" && !(name[0] >= '0' && name[0] <= '9') {
		return name
	}
	return "|" + strings.ReplaceAll(strings.ReplaceAll(name, "|", "_"), "\\", "_") + "|"
}

// varSym is the SMT symbol of a variable: name plus width, so that equally named inputs of different
// harnesses sharing one solver process do not clash.
func varSym(t *Term) string { return smtSym(fmt.Sprintf("%s!%d", t.Name, t.W)) }

func constStr(t *Term) string {
	if t.W == 0 {
		if t.Val == 1 {
			return "true"
		}
		return "false"
	}
	if t.W%4 == 0 {
		s := t.BigVal().Text(16)
		for len(s) < t.W/4 {
			s = "0" + s
		}
		return "#x" + s
	}
	s := t.BigVal().Text(2)
	for len(s) < t.W {
		s = "0" + s
	}
	return "#b" + s
}

// headStr renders a node referring to children via ref().
func headStr(t *Term, ref func(*Term) string) string {
	switch t.Op {
	case OpConst:
		return constStr(t)
	case OpVar:
		return varSym(t)
	case OpExtract:
		return fmt.Sprintf("((_ extract %d %d) %s)", t.Hi, t.Lo, ref(t.Args[0]))
	case OpZExt:
		return fmt.Sprintf("((_ zero_extend %d) %s)", t.Hi, ref(t.Args[0]))
	case OpSExt:
		return fmt.Sprintf("((_ sign_extend %d) %s)", t.Hi, ref(t.Args[0]))
	case OpApp:
		if len(t.Args) == 0 {
			return smtSym(t.Name)
		}
		var sb strings.Builder
		sb.WriteString("(" + smtSym(t.Name))
		for _, a := range t.Args {
			sb.WriteByte(' ')
			sb.WriteString(ref(a))
		}
		sb.WriteByte(')')
		return sb.String()
	case OpRaw:
		refs := make([]interface{}, len(t.Args))
		for i, a := range t.Args {
			refs[i] = ref(a)
		}
		return fmt.Sprintf(t.Name, refs...)
	case OpConcat:
		// nest binary for portability
		s := ref(t.Args[len(t.Args)-1])
		for i := len(t.Args) - 2; i >= 0; i-- {
			s = "(concat " + ref(t.Args[i]) + " " + s + ")"
		}
		return s
	}
	var sb strings.Builder
	sb.WriteString("(" + opNames[t.Op])
	for _, a := range t.Args {
		sb.WriteByte(' ')
		sb.WriteString(ref(a))
	}
	sb.WriteByte(')')
	return sb.String()
}

// String renders a term fully inline (debugging, small terms).
func (t *Term) String() string {
	return headStr(t, func(a *Term) string { return a.String() })
}
