package main

import (
	"go/token"
	"go/types"

	"golang.org/x/tools/go/ssa"
)

// Local if-conversion: a branch on a symbolic condition whose arms are side-effect-free straight-line blocks
// rejoining immediately (triangle or diamond) is executed on both arms and the phi nodes of the join block become
// if-then-else terms, instead of forking the path. This is what keeps bitwise loops (CRC) on one path.

func pureInstr(in ssa.Instruction) bool {
	switch v := in.(type) {
	case *ssa.BinOp:
		switch v.Op {
		case token.QUO, token.REM:
			c, ok := v.Y.(*ssa.Const)
			if !ok || c.Value == nil {
				return false
			}
			return c.Value.String() != "0"
		}
		if _, ok := v.X.Type().Underlying().(*types.Basic); !ok {
			return false
		}
		return true
	case *ssa.UnOp:
		return v.Op == token.NOT || v.Op == token.SUB || v.Op == token.XOR
	case *ssa.Convert:
		_, a := v.X.Type().Underlying().(*types.Basic)
		_, b := v.Type().Underlying().(*types.Basic)
		return a && b && !isString(v.X.Type()) && !isString(v.Type())
	case *ssa.ChangeType:
		_, a := v.X.Type().Underlying().(*types.Basic)
		return a
	case *ssa.DebugRef:
		return true
	}
	return false
}

// pureArm: block with single predecessor pred, only pure instructions, ending in an unconditional jump.
func pureArm(b, pred *ssa.BasicBlock) (*ssa.BasicBlock, bool) {
	if len(b.Preds) != 1 || b.Preds[0] != pred || len(b.Instrs) > 24 {
		return nil, false
	}
	n := len(b.Instrs)
	j, ok := b.Instrs[n-1].(*ssa.Jump)
	if !ok {
		return nil, false
	}
	_ = j
	for _, in := range b.Instrs[:n-1] {
		if !pureInstr(in) {
			return nil, false
		}
	}
	return b.Succs[0], true
}

// tryIfConvert returns true if the branch was merged; fr.block/fr.prev are then positioned at the join block
// with its phis already evaluated (the caller must skip them).
func (x *Exec) tryIfConvert(fr *frame, in *ssa.If, cond *Term) (joined *ssa.BasicBlock, ok bool) {
	cur := fr.block
	t, f := cur.Succs[0], cur.Succs[1]
	var join *ssa.BasicBlock
	var tArm, fArm *ssa.BasicBlock // nil arm = direct edge
	if j, ok := pureArm(t, cur); ok {
		if j == f {
			join, tArm = f, t
		} else if j2, ok2 := pureArm(f, cur); ok2 && j2 == j {
			join, tArm, fArm = j, t, f
		}
	}
	if join == nil {
		if j, ok := pureArm(f, cur); ok && j == t {
			join, fArm = t, f
		}
	}
	if join == nil {
		return nil, false
	}
	// evaluate arms
	runArm := func(b *ssa.BasicBlock) bool {
		for _, ins := range b.Instrs[:len(b.Instrs)-1] {
			x.steps++
			x.curInstr = ins
			switch v := ins.(type) {
			case *ssa.BinOp:
				fr.env[v] = x.binop(v.Op, v.X.Type(), x.get(fr, v.X), x.get(fr, v.Y))
			case *ssa.UnOp:
				fr.env[v] = x.unop(fr, v)
			case *ssa.Convert:
				fr.env[v] = x.conv(v.Type(), v.X.Type(), x.get(fr, v.X))
			case *ssa.ChangeType:
				fr.env[v] = x.get(fr, v.X)
			}
		}
		return true
	}
	tPred, fPred := cur, cur
	if tArm != nil {
		runArm(tArm)
		tPred = tArm
	}
	if fArm != nil {
		runArm(fArm)
		fPred = fArm
	}
	// phis of join
	ti, fi := -1, -1
	for k, p := range join.Preds {
		if p == tPred && ti < 0 {
			ti = k
		}
		if p == fPred && (fi < 0 || (tPred == fPred && k != ti)) {
			fi = k
		}
	}
	if ti < 0 || fi < 0 || ti == fi {
		return nil, false
	}
	type pv struct {
		phi *ssa.Phi
		v   Value
	}
	var vals []pv
	for _, ins := range join.Instrs {
		phi, ok := ins.(*ssa.Phi)
		if !ok {
			break
		}
		tv, fv := x.get(fr, phi.Edges[ti]), x.get(fr, phi.Edges[fi])
		tt, ok1 := tv.(*Term)
		ft, ok2 := fv.(*Term)
		if !ok1 || !ok2 {
			return nil, false
		}
		vals = append(vals, pv{phi, x.ctx.Ite(cond, tt, ft)})
	}
	for _, p := range vals {
		fr.env[p.phi] = p.v
	}
	x.res.IfConversions++
	return join, true
}
