package main

import (
	"fmt"
	"go/types"
	"os"
	"path/filepath"
	"sort"
	"strings"
)

// genEq generates type-directed wire-equality functions (DESIGN 4.2) for the frame harness package.
// Every struct field found by go/types in the current tree is compared, so a field that is added and
// not round-tripped shows up as a violation.

type eqGen struct {
	sb      strings.Builder
	done    map[string]string // type string -> func name
	queue   []types.Type
	pkg     *types.Package // package the code is generated into
	impls   map[string][]types.Type
	allPkgs []*types.Package
	imports map[string]string
	strict  bool   // reflect.DeepEqual semantics (nil and empty differ, no wire normalisations)
	prefix  string // function name prefix (default verifEq_)
}

func (g *eqGen) qual(p *types.Package) string {
	if p == g.pkg {
		return ""
	}
	g.imports[p.Path()] = p.Name()
	return p.Name()
}

func (g *eqGen) typeStr(t types.Type) string { return types.TypeString(t, g.qual) }

func mangle(s string) string {
	r := strings.NewReplacer("*", "P", "[]", "S", "[", "A", "]", "_", ".", "_", "/", "_", " ", "", "{", "", "}", "", ",", "_")
	return r.Replace(s)
}

func (g *eqGen) fn(t types.Type) string {
	key := types.TypeString(t, nil)
	if n, ok := g.done[key]; ok {
		return n
	}
	pf := g.prefix
	if pf == "" {
		pf = "verifEq_"
	}
	n := pf + mangle(g.typeStr(t))
	g.done[key] = n
	g.queue = append(g.queue, t)
	return n
}

// nilEqualsZero lists pointer types whose nil value is wire-equal to a pointer to the zero struct.
var nilEqualsZero = map[string]bool{
	"*github.com/datastax/go-cassandra-native-protocol/message.QueryOptions":      true,
	"*github.com/datastax/go-cassandra-native-protocol/message.VariablesMetadata": true,
	"*github.com/datastax/go-cassandra-native-protocol/message.RowsMetadata":      true,
}

// skipFields lists struct fields excluded from comparison (computed, never on the wire).
var skipFields = map[string]bool{
	"github.com/datastax/go-cassandra-native-protocol/frame.Header.BodyLength": true,
}

func (g *eqGen) emit(t types.Type) {
	name := g.done[types.TypeString(t, nil)]
	ts := g.typeStr(t)
	w := func(format string, args ...interface{}) { fmt.Fprintf(&g.sb, format, args...) }
	w("func %s(p string, a, b %s) {\n", name, ts)
	defer w("}\n\n")
	full := types.TypeString(t, nil)
	sw := full
	if g.strict && !strings.HasSuffix(full, "datatype.PrimitiveType") {
		sw = "" // no wire normalisations in strict mode
	}
	switch sw {
	case "net.IP":
		w("\tnd.Assert(bytes.Equal(verifNormIP(a), verifNormIP(b)), p)\n")
		return
	case "*github.com/datastax/go-cassandra-native-protocol/datatype.PrimitiveType":
		w("\tif a == nil || b == nil {\n\t\tnd.Assert(a == nil && b == nil, p+\": nil mismatch\")\n\t\treturn\n\t}\n")
		w("\tnd.Assert(a.Code() == b.Code(), p+\".code\")\n")
		return
	case "*github.com/datastax/go-cassandra-native-protocol/primitive.Value":
		w("\tif a == nil || b == nil {\n\t\tnd.Assert(a == nil && b == nil, p+\": nil mismatch\")\n\t\treturn\n\t}\n")
		// a regular value with nil contents is a null value (NewValue(nil))
		w("\tat, bt := a.Type, b.Type\n")
		w("\tif at == primitive.ValueTypeRegular && a.Contents == nil {\n\t\tat = primitive.ValueTypeNull\n\t}\n")
		w("\tif bt == primitive.ValueTypeRegular && b.Contents == nil {\n\t\tbt = primitive.ValueTypeNull\n\t}\n")
		w("\tnd.Assert(at == bt, p+\".Type\")\n")
		w("\tif at == primitive.ValueTypeRegular && bt == primitive.ValueTypeRegular {\n\t\tnd.Assert(bytes.Equal(a.Contents, b.Contents), p+\".Contents\")\n\t}\n")
		return
	}
	switch u := t.Underlying().(type) {
	case *types.Basic:
		w("\tnd.Assert(a == b, p)\n")
	case *types.Pointer:
		if nilEqualsZero[full] && !g.strict {
			el := g.typeStr(u.Elem())
			w("\tif a == nil {\n\t\ta = &%s{}\n\t}\n\tif b == nil {\n\t\tb = &%s{}\n\t}\n", el, el)
		} else {
			w("\tif a == nil || b == nil {\n\t\tnd.Assert(a == nil && b == nil, p+\": nil mismatch\")\n\t\treturn\n\t}\n")
		}
		w("\t%s(p, *a, *b)\n", g.fn(u.Elem()))
	case *types.Struct:
		named, _ := t.(*types.Named)
		for i := 0; i < u.NumFields(); i++ {
			f := u.Field(i)
			if !g.strict && named != nil && skipFields[named.Obj().Pkg().Path()+"."+named.Obj().Name()+"."+f.Name()] {
				continue
			}
			if !f.Exported() && f.Pkg() != g.pkg {
				w("\t// unexported field %s not comparable from this package\n", f.Name())
				continue
			}
			w("\t%s(p+\".%s\", a.%s, b.%s)\n", g.fn(f.Type()), f.Name(), f.Name(), f.Name())
		}
	case *types.Array:
		if b, ok := u.Elem().Underlying().(*types.Basic); ok && b.Info()&types.IsNumeric != 0 {
			w("\tnd.Assert(a == b, p)\n")
		} else {
			w("\tfor i := range a {\n\t\t%s(p+\"[]\", a[i], b[i])\n\t}\n", g.fn(u.Elem()))
		}
	case *types.Slice:
		if g.strict {
			w("\tnd.Assert((a == nil) == (b == nil), p+\": nil-ness\")\n")
		}
		if b, ok := u.Elem().Underlying().(*types.Basic); ok && b.Kind() == types.Uint8 {
			w("\tnd.Assert(bytes.Equal(a, b), p)\n")
			return
		}
		w("\tif len(a) != len(b) {\n\t\tnd.Assert(false, p+\": length mismatch\")\n\t\treturn\n\t}\n")
		w("\tfor i := range a {\n\t\t%s(p+\"[]\", a[i], b[i])\n\t}\n", g.fn(u.Elem()))
	case *types.Map:
		if g.strict {
			w("\tnd.Assert((a == nil) == (b == nil), p+\": nil-ness\")\n")
		}
		w("\tif len(a) != len(b) {\n\t\tnd.Assert(false, p+\": length mismatch\")\n\t\treturn\n\t}\n")
		w("\tfor k, av := range a {\n\t\tbv, ok := b[k]\n\t\tif !ok {\n\t\t\tnd.Assert(false, p+\": missing key\")\n\t\t\tcontinue\n\t\t}\n\t\t%s(p+\"[k]\", av, bv)\n\t}\n", g.fn(u.Elem()))
	case *types.Interface:
		impls := g.implementors(t)
		w("\tif a == nil || b == nil {\n\t\tnd.Assert(a == nil && b == nil, p+\": nil mismatch\")\n\t\treturn\n\t}\n")
		w("\tswitch av := a.(type) {\n")
		for _, it := range impls {
			w("\tcase %s:\n\t\tbv, ok := b.(%s)\n\t\tif !ok {\n\t\t\tnd.Assert(false, p+\": dynamic type mismatch\")\n\t\t\treturn\n\t\t}\n\t\t%s(p, av, bv)\n", g.typeStr(it), g.typeStr(it), g.fn(it))
		}
		w("\tdefault:\n\t\tnd.Assert(false, p+\": unknown dynamic type\")\n\t}\n")
	default:
		w("\tnd.Assert(false, p+\": uncomparable type %s\")\n", ts)
	}
}

// implementors finds all named types (T or *T) in the loaded repo packages implementing interface t.
func (g *eqGen) implementors(t types.Type) []types.Type {
	key := types.TypeString(t, nil)
	if r, ok := g.impls[key]; ok {
		return r
	}
	it := t.Underlying().(*types.Interface)
	var out []types.Type
	for _, p := range g.allPkgs {
		for _, n := range p.Scope().Names() {
			tn, ok := p.Scope().Lookup(n).(*types.TypeName)
			if !ok || tn.IsAlias() {
				continue
			}
			nt := tn.Type()
			if _, isI := nt.Underlying().(*types.Interface); isI {
				continue
			}
			if !tn.Exported() {
				continue
			}
			if types.Implements(nt, it) {
				out = append(out, nt)
			} else if pt := types.NewPointer(nt); types.Implements(pt, it) {
				out = append(out, pt)
			}
		}
	}
	sort.Slice(out, func(i, j int) bool { return types.TypeString(out[i], nil) < types.TypeString(out[j], nil) })
	g.impls[key] = out
	return out
}

func genEqFile(c *CheckCtx) error {
	pkgs, err := loadTypes(c.Repo, "./frame")
	if err != nil {
		return err
	}
	fp := pkgs[0].Types
	g := &eqGen{done: map[string]string{}, pkg: fp, impls: map[string][]types.Type{}, imports: map[string]string{}}
	seen := map[*types.Package]bool{}
	var visit func(p *types.Package)
	visit = func(p *types.Package) {
		if seen[p] {
			return
		}
		seen[p] = true
		if strings.HasPrefix(p.Path(), repoModule) {
			g.allPkgs = append(g.allPkgs, p)
		}
		for _, i := range p.Imports() {
			visit(i)
		}
	}
	visit(fp)
	root := types.NewPointer(fp.Scope().Lookup("Frame").Type())
	g.fn(root)
	g.fn(types.NewPointer(fp.Scope().Lookup("RawFrame").Type()))
	for len(g.queue) > 0 {
		t := g.queue[0]
		g.queue = g.queue[1:]
		g.emit(t)
	}
	var hdr strings.Builder
	hdr.WriteString("package frame\n\nimport (\n\t\"bytes\"\n\t\"net\"\n\n\tnd \"" + ndPath + "\"\n")
	var ips []string
	for p := range g.imports {
		ips = append(ips, p)
	}
	sort.Strings(ips)
	for _, p := range ips {
		if p == "net" {
			continue
		}
		fmt.Fprintf(&hdr, "\t%q\n", p)
	}
	hdr.WriteString(")\n\nvar _ = bytes.Equal\nvar _ net.IP\n\n")
	hdr.WriteString(`// verifNormIP maps a 4-byte address to its 16-byte v4-in-v6 form (the wire cannot tell them apart).
func verifNormIP(ip net.IP) []byte {
	if len(ip) == 4 {
		return []byte{0, 0, 0, 0, 0, 0, 0, 0, 0, 0, 0xff, 0xff, ip[0], ip[1], ip[2], ip[3]}
	}
	return ip
}

`)
	f := filepath.Join(c.GenDir, "frame_zz_verif_eq_gen.go")
	if err := os.WriteFile(f, []byte(hdr.String()+g.sb.String()), 0o644); err != nil {
		return err
	}
	c.Overlay[filepath.Join(c.Repo, "frame", "zz_verif_eq_gen.go")] = f
	n := 0
	for range g.done {
		n++
	}
	c.Extra["wire_equality_functions_generated"] = n
	return nil
}
