package main

import (
	"fmt"
	"go/constant"
	"go/types"
	"os"
	"path/filepath"
	"sort"
	"strings"

	"golang.org/x/tools/go/packages"
)

// loadTypes loads type information for repo packages (no harness overlay) for generators.
func loadTypes(repo string, patterns ...string) ([]*packages.Package, error) {
	cfg := &packages.Config{
		Dir:  repo,
		Mode: packages.NeedName | packages.NeedTypes | packages.NeedTypesInfo | packages.NeedSyntax | packages.NeedImports | packages.NeedDeps | packages.NeedFiles,
		Env:  append(os.Environ(), "GOFLAGS=-mod=mod", "GOPROXY=off", "GOSUMDB=off", "GOTOOLCHAIN=local"),
	}
	pkgs, err := packages.Load(cfg, patterns...)
	if err != nil {
		return nil, err
	}
	for _, p := range pkgs {
		if len(p.Errors) > 0 {
			return nil, fmt.Errorf("%v", p.Errors[0])
		}
	}
	return pkgs, nil
}

type enumInfo struct {
	Name     string
	IsString bool
	Bits     int
	Signed   bool
	Consts   []string // names
	Values   []string // literal source of values (for comments)
	MaxLen   int
	Methods  map[string]bool
}

func collectEnums(pkg *types.Package) []*enumInfo {
	byType := map[string]*enumInfo{}
	scope := pkg.Scope()
	for _, name := range scope.Names() {
		c, ok := scope.Lookup(name).(*types.Const)
		if !ok {
			continue
		}
		named, ok := c.Type().(*types.Named)
		if !ok || named.Obj().Pkg() != pkg {
			continue
		}
		b, ok := named.Underlying().(*types.Basic)
		if !ok {
			continue
		}
		tn := named.Obj().Name()
		e := byType[tn]
		if e == nil {
			e = &enumInfo{Name: tn, Methods: map[string]bool{}}
			byType[tn] = e
			if b.Info()&types.IsString != 0 {
				e.IsString = true
			} else if b.Info()&types.IsInteger != 0 {
				e.Bits = widthOfBasic(b)
				e.Signed = b.Info()&types.IsUnsigned == 0
			} else {
				continue
			}
			for i := 0; i < named.NumMethods(); i++ {
				e.Methods[named.Method(i).Name()] = true
			}
		}
		e.Consts = append(e.Consts, name)
		e.Values = append(e.Values, c.Val().ExactString())
		if e.IsString {
			if l := len(constant.StringVal(c.Val())); l > e.MaxLen {
				e.MaxLen = l
			}
		}
	}
	var out []*enumInfo
	for _, e := range byType {
		out = append(out, e)
	}
	sort.Slice(out, func(i, j int) bool { return out[i].Name < out[j].Name })
	return out
}

// genC19 writes generated harnesses for enum closure into the primitive package.
func genC19(c *CheckCtx) error {
	pkgs, err := loadTypes(c.Repo, "./primitive")
	if err != nil {
		return err
	}
	enums := collectEnums(pkgs[0].Types)
	var sb strings.Builder
	sb.WriteString("package primitive\n\nimport (\n\t\"strings\"\n\n\tnd \"" + ndPath + "\"\n)\n\nvar _ = strings.Contains\n\n")
	var covered []string
	for _, e := range enums {
		valid := ""
		switch {
		case e.Methods["IsValid"]:
			valid = "IsValid"
		case e.Name == "ProtocolVersion" && e.Methods["IsSupported"]:
			valid = "IsSupported"
		}
		if valid == "" {
			continue
		}
		covered = append(covered, fmt.Sprintf("%s(%d constants)", e.Name, len(e.Consts)))
		if e.IsString {
			fmt.Fprintf(&sb, "func VerifC19_Valid_%s() {\n", e.Name)
			fmt.Fprintf(&sb, "\tn := nd.Len(\"len\", 0, %d)\n\tx := %s(nd.String(\"s\", n))\n", e.MaxLen+1, e.Name)
			fmt.Fprintf(&sb, "\tdeclared := nd.InStr(string(x)")
			for _, k := range e.Consts {
				fmt.Fprintf(&sb, ", string(%s)", k)
			}
			sb.WriteString(")\n")
			fmt.Fprintf(&sb, "\tnd.Assert(x.%s() == declared, \"%s.%s accepts exactly the declared constants\")\n}\n\n", valid, e.Name, valid)
			continue
		}
		nd := map[int]string{8: "Uint8", 16: "Uint16", 32: "Uint32", 64: "Uint64"}[e.Bits]
		fmt.Fprintf(&sb, "func VerifC19_Valid_%s() {\n\tx := %s(nd.%s(\"x\"))\n", e.Name, e.Name, nd)
		fmt.Fprintf(&sb, "\tdeclared := nd.In(uint64(x)")
		for _, k := range e.Consts {
			fmt.Fprintf(&sb, ", uint64(%s)", k)
		}
		sb.WriteString(")\n")
		fmt.Fprintf(&sb, "\tnd.Assert(x.%s() == declared, \"%s.%s accepts exactly the declared constants\")\n}\n\n", valid, e.Name, valid)
		if e.Methods["String"] {
			fmt.Fprintf(&sb, "func VerifC19_String_%s() {\n\tx := %s(nd.%s(\"x\"))\n", e.Name, e.Name, nd)
			fmt.Fprintf(&sb, "\tdeclared := nd.In(uint64(x)")
			for _, k := range e.Consts {
				fmt.Fprintf(&sb, ", uint64(%s)", k)
			}
			sb.WriteString(")\n\ts := x.String()\n")
			fmt.Fprintf(&sb, "\tspecific := !strings.Contains(s, \"?\")\n")
			fmt.Fprintf(&sb, "\tnd.Assert(specific == declared, \"%s.String prints a specific name exactly for declared constants\")\n}\n\n", e.Name)
			fmt.Fprintf(&sb, "func VerifC19_Names_%s() {\n\tnames := []string{", e.Name)
			for i, k := range e.Consts {
				if i > 0 {
					sb.WriteString(", ")
				}
				fmt.Fprintf(&sb, "%s.String()", k)
			}
			sb.WriteString("}\n\tfor i := range names {\n\t\tnd.Assert(names[i] != \"\", \"name not empty\")\n\t\tfor j := i + 1; j < len(names); j++ {\n")
			fmt.Fprintf(&sb, "\t\t\tnd.Assert(names[i] != names[j], \"%s: distinct constants have distinct names\")\n\t\t}\n\t}\n}\n\n", e.Name)
		}
	}
	c.Extra["enum_types_generated_from_source"] = covered
	f := filepath.Join(c.GenDir, "primitive_zz_verif_c19_gen.go")
	if err := os.WriteFile(f, []byte(sb.String()), 0o644); err != nil {
		return err
	}
	c.Overlay[filepath.Join(c.Repo, "primitive", "zz_verif_c19_gen.go")] = f
	return nil
}
