package main

import (
	"fmt"
	"os"
	"time"
	"math/big"

	"golang.org/x/tools/go/ssa"
)

func (x *Exec) ndKey(name string) string {
	k := x.symCount[name]
	x.symCount[name] = k + 1
	if k == 0 {
		return name
	}
	return fmt.Sprintf("%s#%d", name, k)
}

func (x *Exec) ndVar(name string, w int) *Term {
	if x.frozen {
		// nd.Freeze(true): inputs are the fixed value 1 / true (used to build concrete base instances)
		if w == 0 {
			return x.ctx.True
		}
		return x.ctx.BV(1, w)
	}
	key := x.ndKey(name)
	kind := "bv"
	if w == 0 {
		kind = "bool"
	}
	if x.h != nil && x.h.Pins != nil {
		v, ok := x.h.Pins[key]
		if !ok {
			v = big.NewInt(0)
		}
		if w == 0 {
			return x.ctx.Bool(v.Sign() != 0)
		}
		return x.ctx.BigBV(v, w)
	}
	t := x.ctx.Var(key, w)
	x.inputs = append(x.inputs, NdInput{Name: key, W: w, Term: t, Kind: kind})
	return t
}

func (x *Exec) assert(c *Term, msg string) {
	rec := AssertRec{Msg: msg, Site: ""}
	switch {
	case c.IsTrue():
		rec.Status = "folded"
	case c.IsFalse():
		rec.Status = "violated"
		if res, m := x.solver.Check(x.pc, true); res == Sat {
			rec.Model = x.witness(m)
		}
		x.res.Asserts = append(x.res.Asserts, rec)
		panic(pathEnd{Kind: "assertfail", Msg: msg, Site: x.site()})
	default:
		if os.Getenv("GOSYM_DEBUG_ASSERT") != "" {
			str := x.ctx.Script([]*Term{c}, "")
			if len(str) > 6000 {
				str = str[:3000] + "\n.....\n" + str[len(str)-3000:]
			}
			fmt.Fprintf(os.Stderr, "ASSERT %s: %s\n", msg, str)
		}
		conds := append(append([]*Term{}, x.pc...), x.ctx.Not(c))
		t0 := time.Now()
		res, m := x.solver.Check(conds, true)
		rec.Ms = int(time.Since(t0).Milliseconds())
		switch res {
		case Unsat:
			rec.Status = "discharged"
		case Sat:
			rec.Status = "violated"
			rec.Model = x.witness(m)
		default:
			rec.Status = "unknown"
		}
		if res != Unsat {
			// continue under the assumption that the assertion holds, if that is possible
			if !x.feasible(c) {
				x.res.Asserts = append(x.res.Asserts, rec)
				panic(pathEnd{Kind: "assertfail", Msg: msg, Site: x.site()})
			}
			x.pc = append(x.pc, c)
		}
	}
	x.res.Asserts = append(x.res.Asserts, rec)
}

func registerNd(e *Engine) {
	I := e.intrinsics
	p := ndPath + "."
	mk := func(w int) Intrinsic {
		return func(x *Exec, caller *frame, fn *ssa.Function, args []Value) Value {
			return x.ndVar(x.concreteStr(args[0], "nd name"), w)
		}
	}
	I[p+"Bool"] = mk(0)
	I[p+"Uint8"] = mk(8)
	I[p+"Int8"] = mk(8)
	I[p+"Uint16"] = mk(16)
	I[p+"Int16"] = mk(16)
	I[p+"Uint32"] = mk(32)
	I[p+"Int32"] = mk(32)
	I[p+"Float32bits"] = mk(32)
	I[p+"Uint64"] = mk(64)
	I[p+"Int64"] = mk(64)
	I[p+"Int"] = mk(64)
	I[p+"Float64bits"] = mk(64)
	I[p+"Bytes"] = func(x *Exec, caller *frame, fn *ssa.Function, args []Value) Value {
		name := x.concreteStr(args[0], "nd name")
		n := x.concreteInt(args[1], "nd.Bytes length")
		bs := make([]*Term, n)
		for i := range bs {
			bs[i] = x.ndVar(fmt.Sprintf("%s[%d]", name, i), 8)
		}
		if n == 0 {
			return Slice{C: []Cell{}}
		}
		return x.bytesToSlice(bs, "nd.Bytes")
	}
	I[p+"String"] = func(x *Exec, caller *frame, fn *ssa.Function, args []Value) Value {
		name := x.concreteStr(args[0], "nd name")
		n := x.concreteInt(args[1], "nd.String length")
		bs := make([]*Term, n)
		for i := range bs {
			bs[i] = x.ndVar(fmt.Sprintf("%s[%d]", name, i), 8)
		}
		return &Str{B: bs}
	}
	choice := func(x *Exec, name string, n int) int {
		key := x.ndKey(name)
		var v int
		if x.h != nil && x.h.Pins != nil {
			if pv, ok := x.h.Pins[key]; ok {
				v = int(pv.Int64())
			}
			if v < 0 || v >= n {
				panic(pathEnd{Kind: "assume", Msg: "pinned choice out of range", Site: x.site()})
			}
			return v
		}
		if n <= 0 {
			panic(pathEnd{Kind: "assume", Msg: "empty choice", Site: x.site()})
		}
		v = x.chooseN(n)
		x.inputs = append(x.inputs, NdInput{Name: key, Kind: "choice", Val: v})
		x.res.Choices[key] = v
		return v
	}
	I[p+"Choice"] = func(x *Exec, caller *frame, fn *ssa.Function, args []Value) Value {
		return x.intTerm(choice(x, x.concreteStr(args[0], "nd name"), x.concreteInt(args[1], "nd.Choice n")))
	}
	I[p+"Len"] = func(x *Exec, caller *frame, fn *ssa.Function, args []Value) Value {
		lo := x.concreteInt(args[1], "nd.Len lo")
		hi := x.concreteInt(args[2], "nd.Len hi")
		return x.intTerm(lo + choice(x, x.concreteStr(args[0], "nd name"), hi-lo+1))
	}
	I[p+"Assume"] = func(x *Exec, caller *frame, fn *ssa.Function, args []Value) Value {
		c := args[0].(*Term)
		if c.IsTrue() {
			return nil
		}
		if c.IsFalse() || !x.feasible(c) {
			panic(pathEnd{Kind: "assume", Msg: "assumption infeasible", Site: x.site()})
		}
		x.pc = append(x.pc, c)
		return nil
	}
	I[p+"Assert"] = func(x *Exec, caller *frame, fn *ssa.Function, args []Value) Value {
		msg, _ := args[1].(*Str).Concrete()
		x.assert(args[0].(*Term), msg)
		return nil
	}
	I[p+"Note"] = func(x *Exec, caller *frame, fn *ssa.Function, args []Value) Value {
		msg, _ := args[0].(*Str).Concrete()
		x.notes = append(x.notes, msg)
		return nil
	}
	out := func(x *Exec, name string, v string) {
		if x.res.Outputs == nil {
			x.res.Outputs = map[string]string{}
		}
		x.res.Outputs[x.ndKey("out:"+name)] = v
	}
	I[p+"Out"] = func(x *Exec, caller *frame, fn *ssa.Function, args []Value) Value {
		t := args[1].(*Term)
		if t.IsConst() {
			out(x, x.concreteStr(args[0], "nd name"), fmt.Sprint(t.Val))
		} else {
			out(x, x.concreteStr(args[0], "nd name"), "sym")
		}
		return nil
	}
	I[p+"OutBool"] = func(x *Exec, caller *frame, fn *ssa.Function, args []Value) Value {
		t := args[1].(*Term)
		if t.IsConst() {
			out(x, x.concreteStr(args[0], "nd name"), fmt.Sprint(t.Val == 1))
		} else {
			out(x, x.concreteStr(args[0], "nd name"), "sym")
		}
		return nil
	}
	outBytes := func(x *Exec, name string, bs []*Term) {
		s := ""
		for _, b := range bs {
			if !b.IsConst() {
				s = "sym"
				break
			}
			s += fmt.Sprintf("%02x", b.Val)
		}
		out(x, name, s)
	}
	I[p+"OutBytes"] = func(x *Exec, caller *frame, fn *ssa.Function, args []Value) Value {
		outBytes(x, x.concreteStr(args[0], "nd name"), sliceBytes(args[1].(Slice)))
		return nil
	}
	I[p+"OutString"] = func(x *Exec, caller *frame, fn *ssa.Function, args []Value) Value {
		outBytes(x, x.concreteStr(args[0], "nd name"), args[1].(*Str).B)
		return nil
	}
	I[p+"In"] = func(x *Exec, caller *frame, fn *ssa.Function, args []Value) Value {
		r := x.ctx.False
		for _, c := range args[1].(Slice).C {
			r = x.ctx.BOr(r, x.ctx.Eq(args[0].(*Term), c.V.(*Term)))
		}
		return r
	}
	I[p+"InStr"] = func(x *Exec, caller *frame, fn *ssa.Function, args []Value) Value {
		r := x.ctx.False
		for _, c := range args[1].(Slice).C {
			r = x.ctx.BOr(r, x.valEq(args[0], c.V))
		}
		return r
	}
	I[p+"SharedMutable"] = func(x *Exec, caller *frame, fn *ssa.Function, args []Value) Value {
		a := map[interface{}]bool{}
		x.collectMutable(args[0], a, map[interface{}]bool{})
		b := map[interface{}]bool{}
		x.collectMutable(args[1], b, map[interface{}]bool{})
		n := 0
		for k := range b {
			if a[k] {
				n++
			}
		}
		return x.intTerm(n)
	}
	I[p+"Concurrently"] = func(x *Exec, caller *frame, fn *ssa.Function, args []Value) Value {
		fns := args[0].(Slice).C
		reach := make([]map[interface{}]bool, len(fns))
		count := map[interface{}]int{}
		for i, c := range fns {
			reach[i] = map[interface{}]bool{}
			if cl, ok := c.V.(*Closure); ok {
				for _, e := range cl.Env {
					x.collectMutable(e, reach[i], map[interface{}]bool{})
				}
			}
			for k := range reach[i] {
				count[k]++
			}
		}
		viol := 0
		for i, c := range fns {
			base := x.allocSeq
			x.trackWrite = true
			x.writeLog, x.mapWrites = nil, nil
			x.released, x.poolUse = nil, 0
			x.callValue(c.V, nil, caller)
			x.trackWrite = false
			viol += x.poolUse
			x.released, x.poolUse = nil, 0
			check := func(k interface{}, a *Alloc) {
				switch {
				case a != nil && a.Glob != "":
					viol++
					x.notes = append(x.notes, "write to package-level variable "+a.Glob)
				case count[k] > 1:
					viol++
					x.notes = append(x.notes, fmt.Sprintf("write to memory shared between concurrent calls (allocated at %s)", allocSite(a)))
				case (a == nil || a.ID <= base) && !reach[i][k]:
					viol++
					x.notes = append(x.notes, fmt.Sprintf("write to pre-existing memory not reachable from the call's own arguments (allocated at %s)", allocSite(a)))
				}
			}
			seen := map[interface{}]bool{}
			for _, cell := range x.writeLog {
				if !seen[cell] {
					seen[cell] = true
					check(cell, cell.A)
				}
			}
			for _, m := range x.mapWrites {
				if !seen[m] {
					seen[m] = true
					check(m, m.A)
				}
			}
		}
		x.writeLog, x.mapWrites = nil, nil
		return x.intTerm(viol)
	}
	I[p+"MathEqual"] = func(x *Exec, caller *frame, fn *ssa.Function, args []Value) Value {
		// values are 64-bit patterns plus a signedness flag; compare as mathematical integers (65-bit)
		ext := func(v *Term, signed *Term) *Term {
			if !signed.IsConst() {
				panic(x.unsupported("symbolic signedness flag"))
			}
			if signed.IsTrue() {
				return x.ctx.SExt(v, 1)
			}
			return x.ctx.ZExt(v, 1)
		}
		return x.ctx.Eq(ext(args[0].(*Term), args[1].(*Term)), ext(args[2].(*Term), args[3].(*Term)))
	}
	I[p+"BigEqual"] = func(x *Exec, caller *frame, fn *ssa.Function, args []Value) Value {
		// big.Int value == (64-bit pattern, signedness)
		s := x.bigSigned(x.bigCell(args[0]))
		v, signed := args[1].(*Term), args[2].(*Term)
		var e *Term
		if signed.IsTrue() {
			e = x.ctx.SExt(v, s.W-64)
		} else {
			e = x.ctx.ZExt(v, s.W-64)
		}
		return x.ctx.Eq(s, e)
	}
	I[p+"BigInt"] = func(x *Exec, caller *frame, fn *ssa.Function, args []Value) Value {
		// arbitrary *big.Int with |v| < 2^128
		name := x.concreteStr(args[0], "nd name")
		c := x.newBig("nd.BigInt")
		hi := x.ndVar(name+".hi", 64)
		if x.h != nil && x.h.BigBits > 0 && x.h.BigBits < 128 {
			// reduced magnitude range (quick tier): |v| < 2^BigBits
			k := x.h.BigBits - 64
			lim := x.ctx.ULt(hi, x.ctx.BV(uint64(1)<<uint(k), 64))
			if !x.feasible(lim) {
				panic(pathEnd{Kind: "assume", Msg: "big range", Site: x.site()})
			}
			x.pc = append(x.pc, lim)
		}
		mag := x.ctx.ZExt(x.ctx.Concat(hi, x.ndVar(name+".lo", 64)), bigW-128)
		x.bigSet(c, x.ndVar(name+".neg", 0), mag)
		return c
	}
	I[p+"ExportPC"] = func(x *Exec, caller *frame, fn *ssa.Function, args []Value) Value {
		name := x.concreteStr(args[0], "export name")
		x.res.Exports = append(x.res.Exports, PathExport{Name: name, PC: append([]*Term{}, x.pc...)})
		return nil
	}
	I[p+"Epoch"] = func(x *Exec, caller *frame, fn *ssa.Function, args []Value) Value {
		x.epoch++
		return nil
	}
	I[p+"BigBits"] = func(x *Exec, caller *frame, fn *ssa.Function, args []Value) Value {
		x.h.BigBits = x.concreteInt(args[0], "BigBits")
		return nil
	}
	I[p+"Freeze"] = func(x *Exec, caller *frame, fn *ssa.Function, args []Value) Value {
		x.frozen = args[0].(*Term).IsTrue()
		return nil
	}
	I[p+"Symbolic"] = func(x *Exec, caller *frame, fn *ssa.Function, args []Value) Value {
		return x.ctx.Bool(true)
	}
	I[p+"Frozen"] = func(x *Exec, caller *frame, fn *ssa.Function, args []Value) Value {
		return x.ctx.Bool(x.frozen)
	}
	I[p+"AllocBound"] = func(x *Exec, caller *frame, fn *ssa.Function, args []Value) Value {
		x.h.AllocBound = x.concreteInt(args[0], "AllocBound")
		return nil
	}
}

// collectMutable gathers the identities of all mutable locations (pointer targets, slice elements, maps) reachable
// from v. Zero-size pointees are skipped (sharing them is unobservable; natively they may all have one address).
func (x *Exec) collectMutable(v Value, out map[interface{}]bool, seen map[interface{}]bool) {
	switch t := v.(type) {
	case *Cell:
		if t == nil || seen[t] {
			return
		}
		seen[t] = true
		if st, ok := t.V.(Struct); !(ok && len(st) == 0) {
			out[t] = true
		}
		x.collectMutable(t.V, out, seen)
	case Slice:
		for i := range t.C {
			c := &t.C[i]
			if seen[c] {
				continue
			}
			seen[c] = true
			out[c] = true
			x.collectMutable(c.V, out, seen)
		}
	case *Map:
		if t == nil || seen[t] {
			return
		}
		seen[t] = true
		out[t] = true
		for _, e := range t.E {
			x.collectMutable(e.V, out, seen)
		}
	case Struct:
		for i := range t {
			out[&t[i]] = true // field cells are the targets of field stores
			x.collectMutable(t[i].V, out, seen)
		}
	case Array:
		for i := range t {
			out[&t[i]] = true
			x.collectMutable(t[i].V, out, seen)
		}
	case Iface:
		if t.T != nil {
			x.collectMutable(t.V, out, seen)
		}
	case *Closure:
		if t != nil {
			for _, e := range t.Env {
				x.collectMutable(e, out, seen)
			}
		}
	case Tuple:
		for _, e := range t {
			x.collectMutable(e, out, seen)
		}
	}
}

func allocSite(a *Alloc) string {
	if a == nil {
		return "?"
	}
	return a.Site
}
