#!/usr/bin/env python3
"""Store confirmed seeded changes under /verif/seeded/<id>-m<N>/ from /tmp/mut and /tmp/muteval results."""
import json, os, re, shutil, sys, glob
out = []
for f in sorted(glob.glob('/tmp/muteval/C*-[12].json')):
    try: d = json.load(open(f))
    except Exception as e:
        print('skip', f, e); continue
    pid = os.path.basename(d['worktree']); n = d['mutation'][-1]
    src = os.path.join(d['worktree'], d['mutation'])
    ok = all(d.get(k) for k in ('demo_passes_on_clean','patch_applies','builds','demo_fails_with_mutation','existing_suite_passes_with_mutation'))
    if not ok:
        print('NOT CONFIRMED', f, {k: d.get(k) for k in ('demo_passes_on_clean','patch_applies','builds','demo_fails_with_mutation','existing_suite_passes_with_mutation')}); continue
    dst = f'/verif/seeded/{pid}-m{n}'
    os.makedirs(dst, exist_ok=True)
    shutil.copy(os.path.join(src, 'patch.diff'), dst)
    shutil.copy(os.path.join(src, 'demo_test.go'), os.path.join(dst, 'demo_test.go.txt'))
    notes = open(os.path.join(src, 'notes.md')).read() if os.path.exists(os.path.join(src, 'notes.md')) else ''
    open(os.path.join(dst, 'notes.md'), 'w').write(notes)
    meta_path = os.path.join(dst, 'meta.json')
    meta = json.load(open(meta_path)) if os.path.exists(meta_path) else {}
    meta.update({
        'property': pid,
        'origin': 'fresh sub-agent given only the property text and a scratch worktree',
        'demo': {'file': 'demo_test.go.txt', 'copy_to': d['demo_package_dir'] + '/zz_demo_test.go'},
        'confirmed_in_scratch_worktree': {k: d.get(k) for k in ('patch_applies','builds','existing_suite_passes_with_mutation','demo_fails_with_mutation','demo_passes_on_clean')},
        'what_i_ran': ['scripts/evalmut.py %s %s %s' % (d['worktree'], d['mutation'], ' '.join(d['checks']))],
    })
    meta.setdefault('needs_to_manifest', '')
    meta.setdefault('checks_first_run', {c: v['verdict'] for c, v in d['checks'].items()})
    json.dump(meta, open(meta_path, 'w'), indent=1)
    out.append((pid, n, meta['checks_first_run']))
for o in out: print(o)
