#!/usr/bin/env python3
import json,glob,os,sys
for f in sorted(glob.glob('/tmp/muteval/C*-[12].json')):
    try: d=json.load(open(f))
    except Exception as e:
        print(os.path.basename(f),'UNREADABLE'); continue
    conf=[d.get(k) for k in ('demo_passes_on_clean','patch_applies','builds','demo_fails_with_mutation','existing_suite_passes_with_mutation')]
    print(os.path.basename(f), 'confirmed' if all(conf) else 'NOTCONF %s'%conf, {c:v['verdict'] for c,v in d['checks'].items()})
    if '-v' in sys.argv:
        for c,v in d['checks'].items():
            print('   ', v['output'][:600].replace('\n','\n    '))
