#!/bin/bash
# processes lines "<Cxx> <mutationN> <checks...>" appended to /tmp/muteval/${1:-queue}.txt, one at a time (start several with different names to evaluate in parallel)
Q=/tmp/muteval/${1:-queue}.txt
mkdir -p /tmp/muteval; touch $Q
n=0
while [ ! -e /tmp/muteval/STOP ]; do
  total=$(wc -l < $Q)
  if [ "$n" -lt "$total" ]; then
    n=$((n+1))
    line=$(sed -n "${n}p" $Q)
    set -- $line
    id=$1; mut=$2; shift 2
    out=/tmp/muteval/$id-${mut#mutation}.json
    python3 /verif/scripts/evalmut.py /tmp/mut/$id $mut "$@" > $out 2>/tmp/muteval/$id-${mut#mutation}.err
    echo "$(date +%T) done $id $mut" >> /tmp/muteval/log.txt
  else
    sleep 5
  fi
done
