#!/bin/bash
# processes lines "<Cxx> <mutationN> <checks...>" appended to /tmp/muteval/queue.txt, one at a time
mkdir -p /tmp/muteval; touch /tmp/muteval/queue.txt
n=0
while [ ! -e /tmp/muteval/STOP ]; do
  total=$(wc -l < /tmp/muteval/queue.txt)
  if [ "$n" -lt "$total" ]; then
    n=$((n+1))
    line=$(sed -n "${n}p" /tmp/muteval/queue.txt)
    set -- $line
    id=$1; mut=$2; shift 2
    out=/tmp/muteval/$id-${mut#mutation}.json
    python3 /verif/scripts/evalmut.py /tmp/mut/$id $mut "$@" > $out 2>/tmp/muteval/$id-${mut#mutation}.err
    echo "$(date +%T) done $id $mut" >> /tmp/muteval/log.txt
  else
    sleep 5
  fi
done
