#!/bin/bash
cd "$(dirname "$0")/.."
python3-vt - <<'PY'
import json,jsonschema,glob
jsonschema.validate(json.load(open('MANIFEST.json')),json.load(open('/root/.vp/MANIFEST.schema.json')))
for f in glob.glob('evidence/*.json'):
    jsonschema.validate(json.load(open(f)),json.load(open('/root/.vp/EVIDENCE.schema.json')))
    print('ok',f)
print('manifest ok')
PY
