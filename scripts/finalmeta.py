#!/usr/bin/env python3
"""Fill seeded/<id>-m<n>/meta.json from the DESIGN.md table (what it needs to manifest, which check catches it) and from the
final evaluation runs (/tmp/muteval/final/<id>-<n>.json, written by scripts/evalmut.py --noconfirm against /repo HEAD + patch)."""
import json, os, re, glob
root = os.path.dirname(os.path.dirname(os.path.abspath(__file__)))
rows = {}
for l in open(os.path.join(root, 'DESIGN.md')):
    m = re.match(r'\| (C\d\d-m\d) \| (.*?) \| (.*?) \| (.*?) \| (.*?) \|\s*$', l)
    if m: rows[m.group(1)] = m.groups()[1:]
for d in sorted(glob.glob(os.path.join(root, 'seeded', 'C*-m*'))):
    name = os.path.basename(d)
    mp = os.path.join(d, 'meta.json')
    meta = json.load(open(mp))
    if name in rows:
        what, first, final, by = rows[name]
        meta['needs_to_manifest'] = what
        meta['verdict_first_run'] = first
        meta['verdict_final'] = final
        meta['caught_by'] = by
    f = '/tmp/muteval/final/%s-%s.json' % (name[:3], name[-1])
    if os.path.exists(f):
        try:
            r = json.load(open(f))
            meta['checks_final_run'] = {c: v['verdict'] for c, v in r['checks'].items()}
            meta['final_run_cmd'] = 'scripts/evalmut.py --noconfirm %s %s %s (worktree at /repo HEAD 1b227a6 + patch)' % (r['worktree'], r['mutation'], ' '.join(r['checks']))
        except Exception as e:
            pass
    json.dump(meta, open(mp, 'w'), indent=1)
    print(name, meta.get('checks_first_run'), '->', meta.get('checks_final_run'))
