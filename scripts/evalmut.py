#!/usr/bin/env python3
"""Confirm a seeded mutation (builds, existing suite passes, demo fails with / passes without) in its scratch worktree,
then run the given checks against it in /repo (apply, check, undo). usage: evalmut.py <worktree> <mutationN> <check ids...>"""
import sys, os, re, subprocess, json, shutil
wt, mut, checks = sys.argv[1], sys.argv[2], sys.argv[3:]
env = dict(os.environ, GOFLAGS='-mod=mod', GOPROXY='off', GOSUMDB='off', GOTOOLCHAIN='local')
md = os.path.join(wt, mut)
def sh(cmd, cwd, timeout=1800):
    p = subprocess.run(cmd, shell=True, cwd=cwd, env=env, capture_output=True, text=True, timeout=timeout)
    return p.returncode, (p.stdout + p.stderr)
demo = open(os.path.join(md, 'demo_test.go')).read()
pkg = re.search(r'^package (\w+)', demo, re.M).group(1).replace('_test', '')
pkgdir = {'lz4': 'compression/lz4', 'snappy': 'compression/snappy'}.get(pkg, pkg)
res = {'worktree': wt, 'mutation': mut, 'demo_package_dir': pkgdir}
sh('git checkout -- . && git clean -fdq -e mutation1 -e mutation2', wt)
dst = os.path.join(wt, pkgdir, 'zz_demo_test.go')
shutil.copy(os.path.join(md, 'demo_test.go'), dst)
rc, out = sh(f'go test -vet=off -count=1 -run "Mutation|Demo|C[0-9][0-9]|Test" ./{pkgdir} 2>&1 | tail -5', wt)
names = re.findall(r'^func (Test\w+)', demo, re.M)
runre = '^(' + '|'.join(names) + ')$'
rc, out = sh(f'go test -vet=off -count=1 -run "{runre}" ./{pkgdir}', wt)
res['demo_passes_on_clean'] = (rc == 0)
rc, out = sh(f'git apply {mut}/patch.diff', wt)
res['patch_applies'] = (rc == 0)
rc, out = sh('go build ./...', wt)
res['builds'] = (rc == 0)
rc, out = sh(f'go test -vet=off -count=1 -run "{runre}" ./{pkgdir}', wt)
res['demo_fails_with_mutation'] = (rc != 0)
res['demo_output_tail'] = out[-600:]
os.remove(dst)
rc, out = sh("unshare -n sh -c 'ip link set lo up && go test -vet=off -count=1 $(go list ./... | grep -v /mutation)' 2>&1 | grep -v 'no test files' | tail -12", wt)
res['existing_suite_passes_with_mutation'] = ('FAIL' not in out and 'ok' in out)
res['suite_tail'] = out[-500:]
sh('git checkout -- .', wt)
# run checks against /repo
res['checks'] = {}
rc, out = sh(f'git -C /repo apply {md}/patch.diff', '/verif')
if rc != 0:
    res['repo_apply_error'] = out
else:
    try:
        for c in checks:
            rc, out = sh(f'./check {c} quick 2>&1 | grep -a "VIOLATION\\|SUMMARY\\|INCONCLUSIVE\\|KNOWN\\|^  " | cut -c1-400 | head -12', '/verif', timeout=3600)
            verdict = 'pass'
            if 'VIOLATION' in out: verdict = 'VIOLATION'
            elif 'INCONCLUSIVE' in out: verdict = 'inconclusive'
            elif 'exit=0' not in out: verdict = 'error'
            res['checks'][c] = {'verdict': verdict, 'output': out[-1500:]}
    finally:
        sh('git -C /repo checkout -- .', '/verif')
print(json.dumps(res, indent=1))
