#!/usr/bin/env python3
"""Confirm a seeded mutation in its scratch worktree (patch applies, builds, existing suite passes, demo fails with /
passes without), then run the given checks against it.

usage: evalmut.py [--inrepo] [--noconfirm] <worktree> <mutationN> <check ids...>

Default: the checks run against the scratch worktree with the patch applied (VERIF_REPO=<worktree>), so several
evaluations can run side by side and /repo is never touched. With --inrepo the patch is applied to /repo
(git -C /repo apply), the checks run, and it is undone straight afterwards (git -C /repo checkout -- .).
Evidence of these runs goes to /tmp/muteval/evidence, never to /verif/evidence."""
import sys, os, re, subprocess, json, shutil
args = sys.argv[1:]
inrepo = '--inrepo' in args
noconfirm = '--noconfirm' in args
args = [a for a in args if not a.startswith('--')]
wt, mut, checks = args[0], args[1], args[2:]
env = dict(os.environ, GOFLAGS='-mod=mod', GOPROXY='off', GOSUMDB='off', GOTOOLCHAIN='local')
md = os.path.join(wt, mut)
def sh(cmd, cwd, timeout=3600, extra=None):
    e = dict(env)
    if extra: e.update(extra)
    p = subprocess.run(cmd, shell=True, cwd=cwd, env=e, capture_output=True, text=True, timeout=timeout)
    return p.returncode, (p.stdout + p.stderr)
demo = open(os.path.join(md, 'demo_test.go')).read()
pkg = re.search(r'^package (\w+)', demo, re.M).group(1).replace('_test', '')
pkgdir = {'lz4': 'compression/lz4', 'snappy': 'compression/snappy'}.get(pkg, pkg)
res = {'worktree': wt, 'mutation': mut, 'demo_package_dir': pkgdir}
notes = ''
if os.path.exists(os.path.join(md, 'notes.md')):
    notes = open(os.path.join(md, 'notes.md')).read()
# the sub-agents were told to write the literal text "-race" when the demo needs the race detector; most notes mention
# it only to say that it is NOT needed, so look for an affirmative statement
race = ' -race' if re.search(r'(?i)(needs?|requires?|must be run with|run (it )?with|only fails (with|under))\s+(`?go test )?`?-race', notes) and not re.search(r'(?i)(neither|not|no|doesn.t|does not)\b[^.\n]{0,60}-race', notes) else ''
res['demo_needs_race'] = bool(race)
sh('git checkout -- . && git clean -fdq -e mutation1 -e mutation2 -e PROPERTY.json', wt)
names = re.findall(r'^func (Test\w+)', demo, re.M)
runre = '^(' + '|'.join(names) + ')$'
dst = os.path.join(wt, pkgdir, 'zz_demo_test.go')
if not noconfirm:
    shutil.copy(os.path.join(md, 'demo_test.go'), dst)
    rc, out = sh(f'go test -vet=off -count=1{race} -run "{runre}" ./{pkgdir}', wt)
    res['demo_passes_on_clean'] = (rc == 0)
    if rc != 0: res['demo_clean_output_tail'] = out[-600:]
rc, out = sh(f'git apply {mut}/patch.diff', wt)
res['patch_applies'] = (rc == 0)
if not noconfirm:
    rc, out = sh('go build ./...', wt)
    res['builds'] = (rc == 0)
    rc, out = sh(f'go test -vet=off -count=1{race} -run "{runre}" ./{pkgdir}', wt)
    res['demo_fails_with_mutation'] = (rc != 0)
    res['demo_output_tail'] = out[-600:]
    os.remove(dst)
    if True:  # always in a private network namespace: the client tests bind fixed ports and clash with parallel runs
        rc, out = sh("unshare -n sh -c 'ip link set lo up && go test -vet=off -count=1 $(go list ./... | grep -v /mutation)' 2>&1 | grep -v 'no test files' | tail -12", wt)
    res['existing_suite_passes_with_mutation'] = ('FAIL' not in out and 'ok' in out)
    res['suite_tail'] = out[-500:]
res['checks'] = {}
evdir = '/tmp/muteval/evidence/%s-%s' % (os.path.basename(wt), mut)
os.makedirs(evdir, exist_ok=True)
extra = {'VERIF_EVIDENCE_DIR': evdir}
ok = True
if inrepo:
    sh('git checkout -- .', wt)
    rc, out = sh(f'git -C /repo apply {md}/patch.diff', '/verif')
    if rc != 0:
        res['repo_apply_error'] = out; ok = False
else:
    extra['VERIF_REPO'] = wt
try:
    if ok:
        for c in checks:
            rc, out = sh(f'./check {c} quick 2>&1 | grep -a "VIOLATION\\|SUMMARY\\|INCONCLUSIVE\\|KNOWN\\|CHECK-ERROR\\|^  " | cut -c1-400 | head -14', '/verif', timeout=5400, extra=extra)
            verdict = 'pass'
            if 'VIOLATION' in out: verdict = 'VIOLATION'
            elif 'INCONCLUSIVE' in out or 'CHECK-ERROR' in out: verdict = 'inconclusive'
            elif 'exit=0' not in out: verdict = 'error'
            res['checks'][c] = {'verdict': verdict, 'output': out[-1800:]}
finally:
    if inrepo:
        sh('git -C /repo checkout -- .', '/verif')
    else:
        sh('git checkout -- .', wt)
res['checks_ran_in'] = '/repo (apply/undo)' if inrepo else 'scratch worktree (VERIF_REPO)'
print(json.dumps(res, indent=1))
