#!/usr/bin/env python3
# Regenerates MANIFEST.json from scripts/manifest_src.json (claimed checks) + properties.jsonl (everything else => not_applicable)
import json,sys,os
here=os.path.dirname(os.path.abspath(__file__)); root=os.path.dirname(here)
src=json.load(open(os.path.join(here,'manifest_src.json')))
props=[json.loads(l) for l in open(os.path.join(root,'properties.jsonl'))]
claimed={c['property_id'] for c in src['checks']}
na=[]
for p in props:
    if p['id'] not in claimed:
        na.append({"property_id":p['id'],"reason":src['not_applicable'].get(p['id'],"no check registered yet in this round (machinery under construction)")})
checks=[]
for c in src['checks']:
    d=dict(c)
    d.setdefault('quick_cmd',f"./check {c['property_id']} quick")
    d.setdefault('thorough_cmd',f"./check {c['property_id']} thorough")
    d.setdefault('evidence_file',f"/verif/evidence/{c['property_id']}.json")
    d.setdefault('replay_cmd_template',f"./check {c['property_id']} --replay {{path}}")
    d.setdefault('engine','gosym')
    checks.append(d)
m={"version":1,
   "setup_cmd":"cd /verif/engine && GOFLAGS=-mod=mod GOPROXY=off GOSUMDB=off GOTOOLCHAIN=local go build -o /verif/bin/gosym .",
   "hooks":{"guard":"verif","enable":"none needed: harnesses are injected with go/packages Overlay and `go test -overlay`; /repo is not modified","baseline_off_cmd":json.load(open('/root/.vp/BASELINE.json'))['cmd'],"source_commits":[],"add_only":True},
   "engines":[{"name":"gosym","path":"/verif/engine","serves_properties":sorted(claimed),"kind_free_text":"bounded symbolic execution of go/ssa (built from /repo's working tree on every run) into SMT-LIB2 bit-vector queries decided by z3; counterexamples replayed natively via go test -overlay"}],
   "checks":checks,
   "notes":src.get('notes',''),
   "not_applicable":na}
json.dump(m,open(os.path.join(root,'MANIFEST.json'),'w'),indent=1)
print("checks:",len(checks),"not_applicable:",len(na))
