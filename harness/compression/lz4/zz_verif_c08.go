package lz4

import (
	"bytes"
	"io"

	nd "github.com/datastax/go-cassandra-native-protocol/internal/zzverifnd"
)

// verifLossless: compress then decompress an arbitrary input of n bytes in both formats, through the reader kinds
// the frame and segment codecs use. Under the engine the LZ4 block functions are contract stubs: the compressed
// length is any value the contract allows (policy 0), or the shortest one, i.e. the highest ratio (policy 1).
func verifLossless(n int, policy int) {
	nd.CompressPolicy(policy)
	x := nd.Bytes("x", n)
	c := Compressor{}
	// raw segment-payload format: Compress / Decompress
	comp := &bytes.Buffer{}
	err := c.Compress(bytes.NewBuffer(append([]byte{}, x...)), comp)
	nd.Assert(err == nil, "Compress succeeds")
	if err == nil {
		nd.Assert(comp.Len() >= 1, "a compressed block has at least one byte")
		out := &bytes.Buffer{}
		err = c.Decompress(bytes.NewReader(append([]byte{}, comp.Bytes()...)), out)
		nd.Assert(err == nil, "Decompress of a compressed block succeeds")
		if err == nil {
			nd.Assert(bytes.Equal(out.Bytes(), x), "Decompress(Compress(x)) == x")
		}
	}
	// frame-body format: CompressWithLength / DecompressWithLength (through a LimitReader as frame.DecodeBody does)
	comp2 := &bytes.Buffer{}
	err = c.CompressWithLength(bytes.NewBuffer(append([]byte{}, x...)), comp2)
	nd.Assert(err == nil, "CompressWithLength succeeds")
	if err == nil {
		b := comp2.Bytes()
		nd.Assert(len(b) >= 5, "length prefix plus at least one block byte")
		nd.Assert(uint32(b[0])<<24|uint32(b[1])<<16|uint32(b[2])<<8|uint32(b[3]) == uint32(n), "length prefix is the uncompressed length, big-endian")
		total := comp2.Len()
		comp2.Write([]byte{0xAA, 0xBB}) // following frame
		out := &bytes.Buffer{}
		err = c.DecompressWithLength(io.LimitReader(comp2, int64(total)), out)
		nd.Assert(err == nil, "DecompressWithLength succeeds")
		if err == nil {
			nd.Assert(bytes.Equal(out.Bytes(), x), "DecompressWithLength(CompressWithLength(x)) == x")
			nd.Assert(comp2.Len() == 2, "exactly the declared body is consumed")
		}
	}
}

func VerifC08_LZ4_n0()  { verifLossless(0, 0) }
func VerifC08_LZ4_n1()  { verifLossless(1, 0) }
func VerifC08_LZ4_n2()  { verifLossless(2, 0) }
func VerifC08_LZ4_n3()  { verifLossless(3, 0) }
func VerifC08_LZ4_n8()  { verifLossless(8, 0) }
func VerifC08_LZ4_n9()  { verifLossless(9, 0) }
func VerifC08_LZ4_n17() { verifLossless(17, 0) }

// long inputs at the highest ratio the stub contract allows (k = n/255 + 12): the real library reaches
// comparable ratios on repetitive input, so a model replays natively
func VerifC08_LZ4_n300_maxratio()  { verifLossless(300, 1) }
func VerifC08_LZ4_n1000_maxratio() { verifLossless(1000, 1) }
func VerifC08_LZ4_n5000_maxratio() { verifLossless(5000, 1) }
func VerifC08_LZ4_n300_minratio()  { verifLossless(300, 2) }
func VerifC08_LZ4_n8192_maxratio()   { verifLossless(8192, 1) }
func VerifC08_LZ4_n16384_maxratio()  { verifLossless(16384, 1) }
func VerifC08_LZ4_n65536_maxratio()  { verifLossless(65536, 1) }
func VerifC08_LZ4_n131071_maxratio() { verifLossless(131071, 1) }
// inputs above the segment maximum (131071) are not run: the engine represents very large allocations lazily and the
// compressor stub needs the concrete destination (the 1 MiB case of an earlier round ended inconclusive)
