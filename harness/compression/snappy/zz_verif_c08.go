package snappy

import (
	"bytes"
	"io"

	nd "github.com/datastax/go-cassandra-native-protocol/internal/zzverifnd"
)

func verifLossless(n int, policy int) {
	nd.CompressPolicy(policy)
	x := nd.Bytes("x", n)
	c := Compressor{}
	comp := &bytes.Buffer{}
	err := c.CompressWithLength(bytes.NewBuffer(append([]byte{}, x...)), comp)
	nd.Assert(err == nil, "CompressWithLength succeeds")
	if err != nil {
		return
	}
	total := comp.Len()
	comp.Write([]byte{0xAA, 0xBB})
	out := &bytes.Buffer{}
	err = c.DecompressWithLength(io.LimitReader(comp, int64(total)), out)
	nd.Assert(err == nil, "DecompressWithLength succeeds")
	if err == nil {
		nd.Assert(bytes.Equal(out.Bytes(), x), "DecompressWithLength(CompressWithLength(x)) == x")
		nd.Assert(comp.Len() == 2, "exactly the declared body is consumed")
	}
}

func VerifC08_Snappy_n0()              { verifLossless(0, 0) }
func VerifC08_Snappy_n1()              { verifLossless(1, 0) }
func VerifC08_Snappy_n2()              { verifLossless(2, 0) }
func VerifC08_Snappy_n9()              { verifLossless(9, 0) }
func VerifC08_Snappy_n300_maxratio()   { verifLossless(300, 1) }
func VerifC08_Snappy_n5000_maxratio()  { verifLossless(5000, 1) }
func VerifC08_Snappy_n300_minratio()   { verifLossless(300, 2) }
