package primitive

import (
	"bytes"

	nd "github.com/datastax/go-cassandra-native-protocol/internal/zzverifnd"
)

func VerifC03_UnsignedVintRoundTrip() {
	nd.AllocBound(9)
	v := nd.Uint64("v")
	buf := &bytes.Buffer{}
	n, err := WriteUnsignedVint(v, buf)
	nd.Assert(err == nil, "write ok")
	nd.Assert(n == LengthOfUnsignedVint(v), "declared = returned")
	nd.Assert(n == buf.Len(), "returned = emitted")
	got, read, err := ReadUnsignedVint(buf)
	nd.Assert(err == nil, "read ok")
	nd.Assert(got == v, "round trip value")
	nd.Assert(read == n, "read count")
	nd.Assert(buf.Len() == 0, "exact consumption")
}
