package primitive

import (
	"bytes"
	"net"

	nd "github.com/datastax/go-cassandra-native-protocol/internal/zzverifnd"
)

// C03 clause 2: for every notation LengthOfX(x) equals the bytes WriteX(x) emits, and ReadX consumes exactly that
// many bytes (an arbitrary suffix follows and must be left untouched) and returns x.

func verifSuffix(buf *bytes.Buffer) []byte {
	s := nd.Bytes("suffix", 2)
	buf.Write(s)
	return s
}

func verifRest(buf *bytes.Buffer, s []byte, what string) {
	nd.Assert(buf.Len() == 2, what+": reader stands exactly after the notation")
	nd.Assert(bytes.Equal(buf.Bytes(), s), what+": following bytes untouched")
}

func VerifC03_Notation_Ints() {
	buf := &bytes.Buffer{}
	b, sh, i, l := nd.Uint8("b"), nd.Uint16("s"), nd.Int32("i"), nd.Int64("l")
	nd.Assert(WriteByte(b, buf) == nil && WriteShort(sh, buf) == nil && WriteInt(i, buf) == nil && WriteLong(l, buf) == nil, "writes succeed")
	nd.Assert(buf.Len() == LengthOfByte+LengthOfShort+LengthOfInt+LengthOfLong, "declared fixed lengths = emitted")
	s := verifSuffix(buf)
	b2, _ := ReadByte(buf)
	sh2, _ := ReadShort(buf)
	i2, _ := ReadInt(buf)
	l2, err := ReadLong(buf)
	nd.Assert(err == nil, "reads succeed")
	nd.Assert(b2 == b, "byte")
	nd.Assert(sh2 == sh, "short")
	nd.Assert(i2 == i, "int")
	nd.Assert(l2 == l, "long")
	verifRest(buf, s, "ints")
}

func VerifC03_Notation_Vint() {
	nd.AllocBound(10)
	v := nd.Int64("v")
	buf := &bytes.Buffer{}
	n, err := WriteVint(v, buf)
	nd.Assert(err == nil, "write ok")
	nd.Assert(n == LengthOfVint(v), "LengthOfVint = returned count")
	nd.Assert(n == buf.Len(), "returned count = emitted")
	s := verifSuffix(buf)
	got, read, err := ReadVint(buf)
	nd.Assert(err == nil, "read ok")
	nd.Assert(got == v, "value")
	nd.Assert(read == n, "bytes read = bytes written")
	verifRest(buf, s, "vint")
}

func VerifC03_Notation_Strings() {
	n := nd.Len("len", 0, 3)
	str := nd.String("s", n)
	buf := &bytes.Buffer{}
	nd.Assert(WriteString(str, buf) == nil, "write string")
	nd.Assert(buf.Len() == LengthOfString(str), "LengthOfString = emitted")
	nd.Assert(WriteLongString(str, buf) == nil, "write long string")
	nd.Assert(buf.Len() == LengthOfString(str)+LengthOfLongString(str), "LengthOfLongString = emitted")
	s := verifSuffix(buf)
	g1, err := ReadString(buf)
	nd.Assert(err == nil && g1 == str, "string round trip")
	g2, err := ReadLongString(buf)
	nd.Assert(err == nil && g2 == str, "long string round trip")
	verifRest(buf, s, "strings")
}

func verifBytesShape(name string) []byte {
	switch nd.Choice(name+".shape", 4) {
	case 0:
		return nil
	case 1:
		return []byte{}
	case 2:
		return nd.Bytes(name, 1)
	}
	return nd.Bytes(name, 3)
}

func VerifC03_Notation_Bytes() {
	b := verifBytesShape("b")
	buf := &bytes.Buffer{}
	nd.Assert(WriteBytes(b, buf) == nil, "write bytes")
	nd.Assert(buf.Len() == LengthOfBytes(b), "LengthOfBytes = emitted")
	s := verifSuffix(buf)
	g, err := ReadBytes(buf)
	nd.Assert(err == nil, "read bytes")
	nd.Assert((g == nil) == (b == nil), "null [bytes] stays null")
	nd.Assert(bytes.Equal(g, b), "bytes round trip")
	verifRest(buf, s, "bytes")
}

func VerifC03_Notation_ShortBytes() {
	b := verifBytesShape("b")
	buf := &bytes.Buffer{}
	nd.Assert(WriteShortBytes(b, buf) == nil, "write short bytes")
	nd.Assert(buf.Len() == LengthOfShortBytes(b), "LengthOfShortBytes = emitted")
	s := verifSuffix(buf)
	g, err := ReadShortBytes(buf)
	nd.Assert(err == nil, "read short bytes")
	nd.Assert(bytes.Equal(g, b), "short bytes round trip")
	verifRest(buf, s, "short bytes")
}

func verifValueShape(name string, v ProtocolVersion) *Value {
	n := 4
	if v >= ProtocolVersion4 {
		n = 5
	}
	switch nd.Choice(name+".shape", n) {
	case 0:
		return NewNullValue()
	case 1:
		return NewValue([]byte{})
	case 2:
		return NewValue(nd.Bytes(name, 1))
	case 3:
		return NewValue(nd.Bytes(name, 2))
	}
	return NewUnsetValue()
}

func verifAnyVersion() ProtocolVersion {
	return []ProtocolVersion{ProtocolVersion2, ProtocolVersion3, ProtocolVersion4, ProtocolVersion5, ProtocolVersionDse1, ProtocolVersionDse2}[nd.Choice("version", 6)]
}

func VerifC03_Notation_Values() {
	v := verifAnyVersion()
	val := verifValueShape("v", v)
	buf := &bytes.Buffer{}
	nd.Assert(WriteValue(val, buf, v) == nil, "write value")
	l, err := LengthOfValue(val)
	nd.Assert(err == nil && buf.Len() == l, "LengthOfValue = emitted")
	vals := []*Value{val, verifValueShape("w", v)}
	nd.Assert(WritePositionalValues(vals, buf, v) == nil, "write positional values")
	lp, err := LengthOfPositionalValues(vals)
	nd.Assert(err == nil && buf.Len() == l+lp, "LengthOfPositionalValues = emitted")
	named := map[string]*Value{"k": val}
	nd.Assert(WriteNamedValues(named, buf, v) == nil, "write named values")
	ln, err := LengthOfNamedValues(named)
	nd.Assert(err == nil && buf.Len() == l+lp+ln, "LengthOfNamedValues = emitted")
	s := verifSuffix(buf)
	g, err := ReadValue(buf, v)
	nd.Assert(err == nil, "read value")
	if err == nil {
		nd.Assert(g.Type == val.Type, "value type (regular/null/unset) round trip")
		nd.Assert(bytes.Equal(g.Contents, val.Contents), "value contents round trip")
	}
	gp, err := ReadPositionalValues(buf, v)
	nd.Assert(err == nil && len(gp) == 2, "read positional values")
	gn, err := ReadNamedValues(buf, v)
	nd.Assert(err == nil && len(gn) == 1, "read named values")
	verifRest(buf, s, "values")
}

func verifIP(name string) net.IP {
	if nd.Choice(name+".v6", 2) == 1 {
		ip := nd.Bytes(name, 16)
		nd.Assume(ip[0] != 0)
		return ip
	}
	return nd.Bytes(name, 4)
}

func VerifC03_Notation_Inet() {
	in := &Inet{Addr: verifIP("ip"), Port: nd.Int32("port")}
	buf := &bytes.Buffer{}
	nd.Assert(WriteInet(in, buf) == nil, "write inet")
	l, err := LengthOfInet(in)
	nd.Assert(err == nil && buf.Len() == l, "LengthOfInet = emitted")
	nd.Assert(WriteInetAddr(in.Addr, buf) == nil, "write inetaddr")
	la, err := LengthOfInetAddr(in.Addr)
	nd.Assert(err == nil && buf.Len() == l+la, "LengthOfInetAddr = emitted")
	s := verifSuffix(buf)
	g, err := ReadInet(buf)
	nd.Assert(err == nil, "read inet")
	if err == nil {
		nd.Assert(g.Port == in.Port, "port")
		nd.Assert(g.Addr.Equal(in.Addr), "address")
	}
	ga, err := ReadInetAddr(buf)
	nd.Assert(err == nil && ga.Equal(in.Addr), "inetaddr round trip")
	verifRest(buf, s, "inet")
}

func VerifC03_Notation_Uuid() {
	var u UUID
	copy(u[:], nd.Bytes("u", 16))
	buf := &bytes.Buffer{}
	nd.Assert(WriteUuid(&u, buf) == nil, "write uuid")
	nd.Assert(buf.Len() == LengthOfUuid, "LengthOfUuid = emitted")
	s := verifSuffix(buf)
	g, err := ReadUuid(buf)
	nd.Assert(err == nil && *g == u, "uuid round trip")
	verifRest(buf, s, "uuid")
}

func VerifC03_Notation_ListsAndMaps() {
	n := nd.Len("n", 0, 2)
	var list []string
	for i := 0; i < n; i++ {
		list = append(list, nd.String("e", nd.Len("elen", 0, 1)))
	}
	buf := &bytes.Buffer{}
	nd.Assert(WriteStringList(list, buf) == nil, "write string list")
	l1 := LengthOfStringList(list)
	nd.Assert(buf.Len() == l1, "LengthOfStringList = emitted")
	sm := map[string]string{}
	mm := map[string][]string{}
	bm := map[string][]byte{}
	if n > 0 {
		sm["k"] = nd.String("sv", 1)
		mm["k"] = list
		bm["k"] = verifBytesShape("bv")
	}
	nd.Assert(WriteStringMap(sm, buf) == nil, "write string map")
	l2 := LengthOfStringMap(sm)
	nd.Assert(buf.Len() == l1+l2, "LengthOfStringMap = emitted")
	nd.Assert(WriteStringMultiMap(mm, buf) == nil, "write string multimap")
	l3 := LengthOfStringMultiMap(mm)
	nd.Assert(buf.Len() == l1+l2+l3, "LengthOfStringMultiMap = emitted")
	nd.Assert(WriteBytesMap(bm, buf) == nil, "write bytes map")
	l4 := LengthOfBytesMap(bm)
	nd.Assert(buf.Len() == l1+l2+l3+l4, "LengthOfBytesMap = emitted")
	s := verifSuffix(buf)
	gl, err := ReadStringList(buf)
	nd.Assert(err == nil && len(gl) == len(list), "string list round trip")
	gs, err := ReadStringMap(buf)
	nd.Assert(err == nil && len(gs) == len(sm), "string map round trip")
	gm, err := ReadStringMultiMap(buf)
	nd.Assert(err == nil && len(gm) == len(mm), "string multimap round trip")
	gb, err := ReadBytesMap(buf)
	nd.Assert(err == nil && len(gb) == len(bm), "bytes map round trip")
	verifRest(buf, s, "lists and maps")
}

func VerifC03_Notation_ReasonMap() {
	n := nd.Len("n", 0, 2)
	var rm []*FailureReason
	for i := 0; i < n; i++ {
		c := FailureCode(nd.Uint16("code"))
		nd.Assume(c <= FailureCodeKeyspaceNotFound)
		rm = append(rm, &FailureReason{Endpoint: verifIP("ep"), Code: c})
	}
	buf := &bytes.Buffer{}
	nd.Assert(WriteReasonMap(rm, buf) == nil, "write reason map")
	l, err := LengthOfReasonMap(rm)
	nd.Assert(err == nil && buf.Len() == l, "LengthOfReasonMap = emitted")
	s := verifSuffix(buf)
	g, err := ReadReasonMap(buf)
	nd.Assert(err == nil && len(g) == n, "reason map round trip")
	for i := range g {
		nd.Assert(g[i].Code == rm[i].Code, "failure code")
		nd.Assert(g[i].Endpoint.Equal(rm[i].Endpoint), "endpoint")
	}
	verifRest(buf, s, "reason map")
}

func VerifC03_Notation_StreamId() {
	v := verifAnyVersion()
	id := nd.Int16("id")
	if v < ProtocolVersion3 {
		nd.Assume(id >= -128)
		nd.Assume(id <= 127)
	}
	buf := &bytes.Buffer{}
	nd.Assert(WriteStreamId(id, buf, v) == nil, "write stream id")
	want := 2
	if v < ProtocolVersion3 {
		want = 1
	}
	nd.Assert(buf.Len() == want, "stream id is one byte in v2, two from v3")
	s := verifSuffix(buf)
	g, err := ReadStreamId(buf, v)
	nd.Assert(err == nil && g == id, "stream id round trip (signed)")
	verifRest(buf, s, "stream id")
}
