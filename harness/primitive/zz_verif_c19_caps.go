package primitive

import (
	nd "github.com/datastax/go-cassandra-native-protocol/internal/zzverifnd"
)

// Capability tables transcribed from specs/native_protocol_v{2..5}.spec and specs/dse_protocol_v{1,2}.spec
// (change logs and field descriptions); DESIGN Appendix A. Indexed by position in verifVersions.
var verifVersions = [6]ProtocolVersion{ProtocolVersion2, ProtocolVersion3, ProtocolVersion4, ProtocolVersion5, ProtocolVersionDse1, ProtocolVersionDse2}

type verifCaps struct {
	v3plus, v4plus, v5only, v5dse2, v5dse, dse, dse2, notV5 [6]bool
}

//                                   v2     v3     v4     v5     dse1   dse2
var verifT = verifCaps{
	v3plus: [6]bool{false, true, true, true, true, true},
	v4plus: [6]bool{false, false, true, true, true, true},
	v5only: [6]bool{false, false, false, true, false, false},
	v5dse2: [6]bool{false, false, false, true, false, true},
	v5dse:  [6]bool{false, false, false, true, true, true},
	dse:    [6]bool{false, false, false, false, true, true},
	dse2:   [6]bool{false, false, false, false, false, true},
	notV5:  [6]bool{true, true, true, false, true, true},
}

func VerifC19_CapsVersionPredicates() {
	i := nd.Choice("version", 6)
	v := verifVersions[i]
	nd.Assert(v.IsSupported(), "every declared version is supported")
	nd.Assert(v.IsDse() == verifT.dse[i], "IsDse")
	nd.Assert(v.IsOss() == !verifT.dse[i], "IsOss")
	nd.Assert(!v.IsBeta(), "no beta version")
	nd.Assert(v.Uses4BytesCollectionLength() == verifT.v3plus[i], "collection lengths are [int] from v3 (v3 spec changes: 'collection serialization ... now 4 bytes')")
	nd.Assert(v.Uses4BytesQueryFlags() == verifT.v5dse[i], "query flags are [int] in v5, DSE1, DSE2")
	nd.Assert(v.SupportsBatchQueryFlags() == verifT.v3plus[i], "BATCH flags from v3")
	nd.Assert(v.SupportsPrepareFlags() == verifT.v5dse2[i], "PREPARE flags in v5 and DSE2")
	nd.Assert(v.SupportsResultMetadataId() == verifT.v5dse2[i], "result metadata id in v5 and DSE2")
	nd.Assert(v.SupportsReadWriteFailureReasonMap() == verifT.v5dse[i], "failure reason map in v5, DSE1, DSE2")
	nd.Assert(v.SupportsWriteTimeoutContentions() == verifT.v5only[i], "contentions in v5 only")
	nd.Assert(v.SupportsModernFramingLayout() == verifT.v5only[i], "segments in v5 only")
	nd.Assert(v.SupportsUnsetValues() == verifT.v4plus[i], "unset values from v4")
	hl := 9
	if i == 0 {
		hl = 8
	}
	nd.Assert(v.FrameHeaderLengthInBytes() == hl, "header is 8 bytes in v2 and 9 from v3")
	nd.Assert(v.SupportsCompression(CompressionNone), "no compression always allowed")
	nd.Assert(v.SupportsCompression(CompressionLz4), "LZ4 in every version")
	nd.Assert(v.SupportsCompression(CompressionSnappy) == verifT.notV5[i], "Snappy in every version but v5")
}

func VerifC19_CapsQueryFlags() {
	i := nd.Choice("version", 6)
	v := verifVersions[i]
	f := QueryFlag(nd.Uint32("flag"))
	got := v.SupportsQueryFlag(f)
	want := false
	switch f {
	case 0x01, 0x02, 0x04, 0x08, 0x10:
		want = true
	case 0x20, 0x40:
		want = verifT.v3plus[i]
	case 0x80:
		want = verifT.v5dse2[i]
	case 0x100:
		want = verifT.v5only[i]
	case 0x40000000, 0x80000000:
		want = verifT.dse[i]
	}
	nd.Assert(got == want, "SupportsQueryFlag matches the spec tables for every 32-bit flag word")
}

func VerifC19_CapsSchemaChangeTarget() {
	i := nd.Choice("version", 6)
	v := verifVersions[i]
	n := nd.Len("len", 0, 10)
	t := SchemaChangeTarget(nd.String("t", n))
	got := v.SupportsSchemaChangeTarget(t)
	want := false
	switch t {
	case "KEYSPACE", "TABLE":
		want = true
	case "TYPE":
		want = verifT.v3plus[i]
	case "FUNCTION", "AGGREGATE":
		want = verifT.v4plus[i]
	}
	nd.Assert(got == want, "SupportsSchemaChangeTarget matches the spec tables")
	nd.Assert((CheckValidSchemaChangeTarget(t, v) == nil) == want, "CheckValidSchemaChangeTarget agrees")
}

func VerifC19_CapsTopologyAndRevision() {
	i := nd.Choice("version", 6)
	v := verifVersions[i]
	nd.Assert(v.SupportsTopologyChangeType(TopologyChangeTypeNewNode), "NEW_NODE in every version")
	nd.Assert(v.SupportsTopologyChangeType(TopologyChangeTypeRemovedNode), "REMOVED_NODE in every version")
	// MOVED_NODE: no spec text defines it; nothing asserted (DESIGN 5/C19).
	r := DseRevisionType(nd.Uint32("rev"))
	got := v.SupportsDseRevisionType(r)
	want := false
	switch r {
	case 1:
		want = verifT.dse[i]
	case 2:
		want = verifT.dse2[i]
	}
	nd.Assert(got == want, "SupportsDseRevisionType matches the DSE spec")
	nd.Assert((CheckValidDseRevisionType(r, v) == nil) == want, "CheckValidDseRevisionType agrees")
}

// Totality on unsupported version numbers: the specs define nothing there; only absence of panics.
func VerifC19_CapsTotalityNoPanic() {
	v := ProtocolVersion(nd.Uint8("v"))
	_ = v.IsSupported()
	_ = v.IsDse()
	_ = v.IsOss()
	_ = v.String()
	_ = v.Uses4BytesCollectionLength()
	_ = v.Uses4BytesQueryFlags()
	_ = v.SupportsBatchQueryFlags()
	_ = v.SupportsPrepareFlags()
	_ = v.SupportsQueryFlag(QueryFlag(nd.Uint32("f")))
	_ = v.SupportsResultMetadataId()
	_ = v.SupportsReadWriteFailureReasonMap()
	_ = v.SupportsWriteTimeoutContentions()
	_ = v.SupportsDseRevisionType(DseRevisionType(nd.Uint32("r")))
	_ = v.FrameHeaderLengthInBytes()
	_ = v.SupportsModernFramingLayout()
	_ = v.SupportsUnsetValues()
	nd.Assert(true, "reached end without panic")
}

func VerifC19_OpCodeClassification() {
	c := OpCode(nd.Uint8("op"))
	req, resp := c.IsRequest(), c.IsResponse()
	nd.Assert(c.IsValid() == (req != resp), "valid opcode is exactly one of request or response")
	nd.Assert(!req || !resp, "never both")
	nd.Assert((CheckValidOpCode(c) == nil) == c.IsValid(), "CheckValidOpCode")
	nd.Assert((CheckRequestOpCode(c) == nil) == req, "CheckRequestOpCode")
	nd.Assert((CheckResponseOpCode(c) == nil) == resp, "CheckResponseOpCode")
	if c.IsDse() {
		nd.Assert(c.IsValid(), "DSE opcodes are valid")
	}
}

func VerifC19_CheckVersion() {
	v := ProtocolVersion(nd.Uint8("v"))
	nd.Assert((CheckSupportedProtocolVersion(v) == nil) == nd.In(uint64(v), 2, 3, 4, 5, 65, 66), "CheckSupportedProtocolVersion accepts exactly v2..v5, DSE1, DSE2")
	nd.Assert((CheckDseProtocolVersion(v) == nil) == nd.In(uint64(v), 65, 66), "CheckDseProtocolVersion")
}

func VerifC19_CheckConsistency() {
	cl := ConsistencyLevel(nd.Uint16("cl"))
	valid := nd.In(uint64(cl), 0, 1, 2, 3, 4, 5, 6, 7, 8, 9, 10)
	nd.Assert((CheckValidConsistencyLevel(cl) == nil) == valid, "CheckValidConsistencyLevel accepts exactly 0x0000..0x000A")
}

func VerifC19_CheckSerialConsistency() {
	cl := ConsistencyLevel(nd.Uint16("cl"))
	nd.Assert((CheckSerialConsistencyLevel(cl) == nil) == nd.In(uint64(cl), uint64(ConsistencyLevelSerial), uint64(ConsistencyLevelLocalSerial)), "serial consistency is SERIAL or LOCAL_SERIAL")
}

func VerifC19_ConsistencyPartition() {
	cl := ConsistencyLevel(nd.Uint16("cl"))
	nd.Assume(nd.In(uint64(cl), 0, 1, 2, 3, 4, 5, 6, 7, 8, 9, 10))
	s := cl.IsSerial()
	nd.Assert(s != cl.IsNonSerial(), "valid level is serial xor non-serial")
}

func VerifC19_CheckBatchType() {
	bt := BatchType(nd.Uint8("bt"))
	nd.Assert((CheckValidBatchType(bt) == nil) == nd.In(uint64(bt), 0, 1, 2), "CheckValidBatchType accepts exactly LOGGED, UNLOGGED, COUNTER")
}

func VerifC19_CheckDataTypeCode() {
	v := ProtocolVersion(nd.Uint8("v"))
	dt := DataTypeCode(nd.Uint16("dt"))
	ok := CheckValidDataTypeCode(dt, v) == nil
	// spec: 0x0000-0x0010 (0x000A Text only v1/v2), 0x0011-0x0014 from v4, 0x0015 v5/DSE, 0x20-0x22, 0x30-0x31 from v3
	declared := nd.In(uint64(dt), 0, 1, 2, 3, 4, 5, 6, 7, 8, 9, 10, 11, 12, 13, 14, 15, 16, 17, 18, 19, 20, 21, 0x20, 0x21, 0x22, 0x30, 0x31)
	nd.Assert(ok == declared, "CheckValidDataTypeCode accepts exactly the spec's type option ids")
}

func VerifC19_PrimitiveImpliesValid() {
	dt := DataTypeCode(nd.Uint16("dt"))
	if dt.IsPrimitive() {
		nd.Assert(nd.In(uint64(dt), 0, 1, 2, 3, 4, 5, 6, 7, 8, 9, 10, 11, 12, 13, 14, 15, 16, 17, 18, 19, 20, 21), "primitive codes are the non-collection type ids")
	} else {
		nd.Assert(!nd.In(uint64(dt), 0, 1, 2, 3, 4, 5, 6, 7, 8, 9, 10, 11, 12, 13, 14, 15, 16, 17, 18, 19, 20, 21), "non-primitive")
	}
}

func VerifC19_CheckResultType() {
	rt := ResultType(nd.Uint32("rt"))
	nd.Assert((CheckValidResultType(rt) == nil) == nd.In(uint64(rt), 1, 2, 3, 4, 5), "CheckValidResultType accepts exactly kinds 1..5")
}

func VerifC19_CheckFailureCode() {
	fc := FailureCode(nd.Uint16("fc"))
	nd.Assert((CheckValidFailureCode(fc) == nil) == nd.In(uint64(fc), 0, 1, 2, 3, 4, 5, 6), "CheckValidFailureCode")
}

func VerifC19_CheckEventType() {
	s := nd.String("s", nd.Len("len", 0, 16))
	nd.Assert((CheckValidEventType(EventType(s)) == nil) == nd.InStr(s, "TOPOLOGY_CHANGE", "STATUS_CHANGE", "SCHEMA_CHANGE"), "CheckValidEventType accepts exactly the spec's event types")
}

func VerifC19_CheckWriteType() {
	s := nd.String("s", nd.Len("len", 0, 15))
	nd.Assert((CheckValidWriteType(WriteType(s)) == nil) == nd.InStr(s, "SIMPLE", "BATCH", "UNLOGGED_BATCH", "COUNTER", "BATCH_LOG", "CAS", "VIEW", "CDC"), "CheckValidWriteType accepts exactly the spec's write types")
}

func VerifC19_CheckSchemaChangeType() {
	s := nd.String("s", nd.Len("len", 0, 8))
	nd.Assert((CheckValidSchemaChangeType(SchemaChangeType(s)) == nil) == nd.InStr(s, "CREATED", "UPDATED", "DROPPED"), "CheckValidSchemaChangeType")
}

func VerifC19_CheckStatusChangeType() {
	s := nd.String("s", nd.Len("len", 0, 5))
	nd.Assert((CheckValidStatusChangeType(StatusChangeType(s)) == nil) == nd.InStr(s, "UP", "DOWN"), "CheckValidStatusChangeType")
}

func VerifC19_CheckTopologyChangeType() {
	i := nd.Choice("version", 6)
	v := verifVersions[i]
	s := nd.String("s", nd.Len("len", 0, 13))
	ok := CheckValidTopologyChangeType(TopologyChangeType(s), v) == nil
	if nd.InStr(s, "NEW_NODE", "REMOVED_NODE") {
		nd.Assert(ok, "NEW_NODE and REMOVED_NODE accepted in every version")
	} else if s != "MOVED_NODE" {
		nd.Assert(!ok, "undeclared topology change types rejected")
	}
}
