package message

import (
	nd "github.com/datastax/go-cassandra-native-protocol/internal/zzverifnd"
	"github.com/datastax/go-cassandra-native-protocol/primitive"
)

// STARTUP option accessors (C20): what a setter stores is what the matching getter returns, and no other option changes.

type verifStartupView struct {
	compression                                                  primitive.Compression
	clientId, appName, appVersion, driverName, driverVersion string
	throwOnOverload                                              bool
}

func verifView(m *Startup) verifStartupView {
	return verifStartupView{m.GetCompression(), m.GetClientId(), m.GetApplicationName(), m.GetApplicationVersion(), m.GetDriverName(), m.GetDriverVersion(), m.IsThrowOnOverload()}
}

// which: index of the accessor that is allowed to differ
func verifSameExcept(before, after verifStartupView, which int, what string) {
	if which != 0 {
		nd.Assert(before.compression == after.compression, what+": compression unchanged")
	}
	if which != 1 {
		nd.Assert(before.clientId == after.clientId, what+": client id unchanged")
	}
	if which != 2 {
		nd.Assert(before.appName == after.appName, what+": application name unchanged")
	}
	if which != 3 {
		nd.Assert(before.appVersion == after.appVersion, what+": application version unchanged")
	}
	if which != 4 {
		nd.Assert(before.driverName == after.driverName, what+": driver name unchanged")
	}
	if which != 5 {
		nd.Assert(before.driverVersion == after.driverVersion, what+": driver version unchanged")
	}
	if which != 6 {
		nd.Assert(before.throwOnOverload == after.throwOnOverload, what+": throw-on-overload unchanged")
	}
}

func verifArbitraryStartup() *Startup {
	m := NewStartup()
	// arbitrary pre-state: each known option present (arbitrary 1-byte value) or absent
	keys := []string{StartupOptionCompression, StartupOptionClientId, StartupOptionApplicationName, StartupOptionApplicationVersion,
		StartupOptionDriverName, StartupOptionDriverVersion, StartupOptionThrowOnOverload}
	pre := nd.Choice("prestate", 1+len(keys)+1)
	for i, k := range keys {
		if pre == 1+i || pre == 1+len(keys) {
			m.Options[k] = nd.String("pre."+k, 1)
		}
	}
	return m
}

func verifSetter(m *Startup, which int, tag string) {
	before := verifView(m)
	switch which {
	case 0:
		c := []primitive.Compression{primitive.CompressionNone, primitive.CompressionLz4, primitive.CompressionSnappy}[nd.Choice("compression"+tag, 3)]
		m.SetCompression(c)
		nd.Assert(m.GetCompression() == c, "GetCompression returns what SetCompression stored")
		if c == primitive.CompressionNone {
			_, present := m.Options[StartupOptionCompression]
			nd.Assert(!present, "NONE <=> COMPRESSION key absent")
		}
	case 1:
		s := nd.String("v"+tag, 1)
		m.SetClientId(s)
		nd.Assert(m.GetClientId() == s, "GetClientId returns what SetClientId stored")
	case 2:
		s := nd.String("v"+tag, 1)
		m.SetApplicationName(s)
		nd.Assert(m.GetApplicationName() == s, "GetApplicationName returns what SetApplicationName stored")
	case 3:
		s := nd.String("v"+tag, 1)
		m.SetApplicationVersion(s)
		nd.Assert(m.GetApplicationVersion() == s, "GetApplicationVersion returns what SetApplicationVersion stored")
	case 4:
		s := nd.String("v"+tag, 1)
		m.SetDriverName(s)
		nd.Assert(m.GetDriverName() == s, "GetDriverName returns what SetDriverName stored")
	case 5:
		s := nd.String("v"+tag, 1)
		m.SetDriverVersion(s)
		nd.Assert(m.GetDriverVersion() == s, "GetDriverVersion returns what SetDriverVersion stored")
	case 6:
		b := nd.Bool("b" + tag)
		m.SetThrowOnOverload(b)
		nd.Assert(m.IsThrowOnOverload() == b, "IsThrowOnOverload returns what SetThrowOnOverload stored")
	}
	verifSameExcept(before, verifView(m), which, "setter")
}

func VerifC20_StartupSetter_Compression()        { verifSetter(verifArbitraryStartup(), 0, "") }
func VerifC20_StartupSetter_ClientId()           { verifSetter(verifArbitraryStartup(), 1, "") }
func VerifC20_StartupSetter_ApplicationName()    { verifSetter(verifArbitraryStartup(), 2, "") }
func VerifC20_StartupSetter_ApplicationVersion() { verifSetter(verifArbitraryStartup(), 3, "") }
func VerifC20_StartupSetter_DriverName()         { verifSetter(verifArbitraryStartup(), 4, "") }
func VerifC20_StartupSetter_DriverVersion()      { verifSetter(verifArbitraryStartup(), 5, "") }
func VerifC20_StartupSetter_ThrowOnOverload()    { verifSetter(verifArbitraryStartup(), 6, "") }

// sequences of setters from NewStartup
func VerifC20_StartupSequences() {
	m := NewStartup()
	n := 2
	if verifThorough {
		n = 3
	}
	for i := 0; i < n; i++ {
		verifSetter(m, nd.Choice("setter", 7), string(rune('a'+i)))
	}
}
