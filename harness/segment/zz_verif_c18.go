package segment

import (
	"bytes"

	"github.com/datastax/go-cassandra-native-protocol/compression/lz4"
	nd "github.com/datastax/go-cassandra-native-protocol/internal/zzverifnd"
)

func verifC18Work(c Codec, p []byte) func() {
	return func() {
		buf := &bytes.Buffer{}
		if err := c.EncodeSegment(&Segment{Header: &Header{IsSelfContained: true}, Payload: &Payload{UncompressedData: p}}, buf); err != nil {
			return
		}
		c.DecodeSegment(buf)
	}
}

func VerifC18_Segment_Uncompressed() {
	c := NewCodec()
	n := nd.Concurrently(verifC18Work(c, nd.Bytes("p1", 3)), verifC18Work(c, nd.Bytes("p2", 3)))
	nd.Assert(n == 0, "concurrent segment codec calls write no shared or package-level memory")
}

func VerifC18_Segment_LZ4() {
	nd.CompressPolicy(1)
	c := NewCodecWithCompression(lz4.Compressor{})
	n := nd.Concurrently(verifC18Work(c, nd.Bytes("p1", 20)), verifC18Work(c, nd.Bytes("p2", 20)))
	nd.Assert(n == 0, "concurrent segment codec calls with LZ4 write no shared or package-level memory")
}

// payloads that compress by more than 2:1 take the decompressor's retry loop (larger and larger buffers)
func VerifC18_Segment_LZ4_HighRatio() {
	nd.CompressPolicy(1)
	c := NewCodecWithCompression(lz4.Compressor{})
	n := nd.Concurrently(verifC18Work(c, nd.Bytes("p1", 300)), verifC18Work(c, nd.Bytes("p2", 400)))
	nd.Assert(n == 0, "concurrent segment codec calls with LZ4 write no shared or package-level memory and keep no memory they released")
}
