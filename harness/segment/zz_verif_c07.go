package segment

import (
	"github.com/datastax/go-cassandra-native-protocol/crc"
	"bytes"

	"github.com/datastax/go-cassandra-native-protocol/compression/lz4"
	nd "github.com/datastax/go-cassandra-native-protocol/internal/zzverifnd"
)

// C07. The acceptance condition of the real decoder is obtained by executing it on fully symbolic bytes; the
// path condition of every accepting path is exported (nd.ExportPC) and post-processed into a parity-check system.

func VerifC07_HeaderAccept_Uncompressed() {
	x := nd.Bytes("x", 6)
	c := &codec{}
	h, err := c.decodeSegmentHeader(bytes.NewReader(x))
	if err != nil {
		nd.Assert(h == nil, "a rejected header yields no header")
		return
	}
	nd.ExportPC("accept")
	nd.Assert(h != nil, "accepted")
}

func VerifC07_HeaderAccept_Compressed() {
	x := nd.Bytes("x", 8)
	c := &codec{compressor: lz4.Compressor{}}
	h, err := c.decodeSegmentHeader(bytes.NewReader(x))
	if err != nil {
		nd.Assert(h == nil, "a rejected header yields no header")
		return
	}
	nd.ExportPC("accept")
	nd.Assert(h != nil, "accepted")
}

func verifPayloadAccept(n int) {
	x := nd.Bytes("x", n+4)
	c := &codec{}
	p, err := c.decodeSegmentPayload(&Header{UncompressedPayloadLength: int32(n)}, bytes.NewReader(x))
	if err != nil {
		nd.Assert(p == nil, "a rejected payload yields no payload")
		return
	}
	nd.ExportPC("accept")
	nd.Assert(bytes.Equal(p.UncompressedData, x[:n]), "accepted payload is the transmitted payload")
}

// the same through a codec that has a compressor, for a segment the sender chose not to compress (compressed-length
// field 0): the payload is delivered as transmitted, so its CRC-32 is the only protection
func verifPayloadAcceptLZ4Raw(n int) {
	x := nd.Bytes("x", n+4)
	c := &codec{compressor: lz4.Compressor{}}
	p, err := c.decodeSegmentPayload(&Header{UncompressedPayloadLength: int32(n), CompressedPayloadLength: 0}, bytes.NewReader(x))
	if err != nil {
		nd.Assert(p == nil, "a rejected payload yields no payload")
		return
	}
	nd.ExportPC("accept")
	nd.Assert(bytes.Equal(p.UncompressedData, x[:n]), "accepted payload is the transmitted payload")
}

func VerifC07_PayloadAcceptLZ4Raw_n4()  { verifPayloadAcceptLZ4Raw(4) }
func VerifC07_PayloadAcceptLZ4Raw_n16() { verifPayloadAcceptLZ4Raw(16) }

func VerifC07_PayloadAccept_n1()  { verifPayloadAccept(1) }
func VerifC07_PayloadAccept_n4()  { verifPayloadAccept(4) }
func VerifC07_PayloadAccept_n16() { verifPayloadAccept(16) }
func VerifC07_PayloadAccept_n32()  { verifPayloadAccept(32) }
func VerifC07_PayloadAccept_n128() { verifPayloadAccept(128) }
func VerifC07_PayloadAccept_n512() {
	if !verifThorough {
		nd.Assert(true, "thorough only")
		return
	}
	verifPayloadAccept(512)
}

// whole-segment rejection: a segment whose header CRC or payload CRC does not match is reported as an error
// and no segment is returned; with a compressor the payload CRC is checked on the bytes as transmitted.
func VerifC07_RejectReturnsNothing() {
	nd.AllocBound(12)
	x := nd.Bytes("x", 6+2+4)
	c := NewCodec()
	s, err := c.DecodeSegment(bytes.NewReader(x))
	if err != nil {
		nd.Assert(s == nil, "decoding reports an error and returns no segment")
	} else {
		nd.Assert(s != nil, "accepted")
	}
}

// VerifReplayC07 is run natively only: it replays an error pattern found by a parity query against the real
// codec (kind 0: uncompressed header, 1: compressed header, 2: payload of n bytes). By linearity any accepted
// codeword xor the pattern is accepted too, so a fixed codeword suffices.
func VerifReplayC07() {
	kind := nd.Int("kind")
	n := nd.Int("n")
	switch kind {
	case 10, 11, 12:
		// cross-path witness: the solver supplies the input x itself (accepted through one path of the decoder) and
		// the error pattern e (x^e accepted through another path)
		c := &codec{}
		l := 6
		if kind == 11 {
			c = &codec{compressor: lz4.Compressor{}}
			l = 8
		}
		if kind == 12 {
			l = n + 4
		}
		x := nd.Bytes("x", l)
		e := nd.Bytes("e", l)
		y := make([]byte, l)
		nonzero := false
		for i := range x {
			y[i] = x[i] ^ e[i]
			nonzero = nonzero || e[i] != 0
		}
		nd.Assert(nonzero, "the error pattern is not empty")
		if kind == 12 {
			p, err := c.decodeSegmentPayload(&Header{UncompressedPayloadLength: int32(n)}, bytes.NewReader(x))
			nd.Assert(err == nil && p != nil, "the uncorrupted payload is accepted")
			q, err := c.decodeSegmentPayload(&Header{UncompressedPayloadLength: int32(n)}, bytes.NewReader(y))
			nd.Assert(err != nil, "corrupted payload is rejected")
			nd.Assert(q == nil || err == nil, "no payload returned on rejection")
		} else {
			h, err := c.decodeSegmentHeader(bytes.NewReader(x))
			nd.Assert(err == nil && h != nil, "the uncorrupted header is accepted")
			g, err := c.decodeSegmentHeader(bytes.NewReader(y))
			nd.Assert(err != nil, "corrupted header is rejected")
			nd.Assert(g == nil || err == nil, "no header returned on rejection")
		}
	case 0, 1:
		c := &codec{}
		buf := &bytes.Buffer{}
		hl := 6
		if kind == 1 {
			c = &codec{compressor: lz4.Compressor{}}
			hl = 8
			c.encodeHeaderCompressed(&Header{IsSelfContained: true, UncompressedPayloadLength: 9, CompressedPayloadLength: 7}, buf)
		} else {
			c.encodeHeaderUncompressed(&Header{IsSelfContained: true, UncompressedPayloadLength: 5}, buf)
		}
		b := buf.Bytes()
		_, err := c.decodeSegmentHeader(bytes.NewReader(b))
		nd.Assert(err == nil, "intact header is accepted")
		e := nd.Bytes("e", hl)
		for i := range e {
			b[i] ^= e[i]
		}
		h, err := c.decodeSegmentHeader(bytes.NewReader(b))
		nd.Assert(err != nil, "corrupted header is rejected")
		nd.Assert(h == nil || err == nil, "no header returned on rejection")
	case 3:
		// payload of an uncompressed segment read by a codec that has a compressor
		c := &codec{compressor: lz4.Compressor{}}
		b := make([]byte, n+4)
		sum := crc.ChecksumIEEE(b[:n])
		b[n], b[n+1], b[n+2], b[n+3] = byte(sum), byte(sum>>8), byte(sum>>16), byte(sum>>24)
		p, err := c.decodeSegmentPayload(&Header{UncompressedPayloadLength: int32(n)}, bytes.NewReader(b))
		nd.Assert(err == nil && p != nil, "intact payload is accepted")
		e := nd.Bytes("e", n+4)
		for i := range e {
			b[i] ^= e[i]
		}
		q, err := c.decodeSegmentPayload(&Header{UncompressedPayloadLength: int32(n)}, bytes.NewReader(b))
		nd.Assert(err != nil, "corrupted payload is rejected")
		nd.Assert(q == nil || err == nil, "no payload returned on rejection")
	default:
		c := NewCodec()
		buf := &bytes.Buffer{}
		c.EncodeSegment(&Segment{Header: &Header{IsSelfContained: true}, Payload: &Payload{UncompressedData: make([]byte, n)}}, buf)
		b := buf.Bytes()
		e := nd.Bytes("e", n+4)
		for i := range e {
			b[6+i] ^= e[i]
		}
		s, err := c.DecodeSegment(bytes.NewReader(b))
		nd.Assert(err != nil, "corrupted payload is rejected")
		nd.Assert(s == nil || err == nil, "no segment returned on rejection")
	}
}
