package segment

import (
	"bytes"

	"github.com/datastax/go-cassandra-native-protocol/compression/lz4"
	nd "github.com/datastax/go-cassandra-native-protocol/internal/zzverifnd"
)

// C04 for the segment decoder: fully symbolic bytes, with and without a compressor.
func VerifC04_NoPanic_Segment_Uncompressed() {
	nd.AllocBound(16)
	b := nd.Bytes("in", 6+3+4)
	s, err := NewCodec().DecodeSegment(bytes.NewReader(b))
	nd.Assert(err != nil || s != nil, "DecodeSegment returns a segment or an error")
}

func VerifC04_NoPanic_Segment_LZ4() {
	nd.AllocBound(16)
	b := nd.Bytes("in", 8+2+4)
	s, err := NewCodecWithCompression(lz4.Compressor{}).DecodeSegment(bytes.NewReader(b))
	nd.Assert(err != nil || s != nil, "DecodeSegment with LZ4 returns a segment or an error")
}
