package segment

import (
	"bytes"

	"github.com/datastax/go-cassandra-native-protocol/compression/lz4"
	"github.com/datastax/go-cassandra-native-protocol/crc"
	nd "github.com/datastax/go-cassandra-native-protocol/internal/zzverifnd"
)

// ---- reference (specs/native_protocol_v5.spec section 2, Cassandra's Crc.java), independent of package crc ----

// CRC-24, Koopman polynomial 0x1974F0B, init 0x875060, bytes taken least significant first, MSB-first per byte.
func refCrc24(data uint64, n int) uint32 {
	c := uint32(0x875060)
	for i := 0; i < n; i++ {
		c ^= uint32(data&0xff) << 16
		data >>= 8
		for j := 0; j < 8; j++ {
			c <<= 1
			if c&0x1000000 != 0 {
				c ^= 0x1974F0B
			}
		}
	}
	return c
}

// CRC-32 (IEEE, reflected 0xEDB88320) of the four seed bytes FA 2D 55 CA followed by the payload.
func refCrc32(p []byte) uint32 {
	c := ^uint32(0)
	c = refCrc32Byte(c, 0xFA)
	c = refCrc32Byte(c, 0x2D)
	c = refCrc32Byte(c, 0x55)
	c = refCrc32Byte(c, 0xCA)
	for _, b := range p {
		c = refCrc32Byte(c, b)
	}
	return ^c
}

func refCrc32Byte(c uint32, b byte) uint32 {
	c ^= uint32(b)
	for j := 0; j < 8; j++ {
		if c&1 != 0 {
			c = (c >> 1) ^ 0xEDB88320
		} else {
			c >>= 1
		}
	}
	return c
}

func refLE(b []byte, v uint64, n int) []byte {
	for i := 0; i < n; i++ {
		b = append(b, byte(v))
		v >>= 8
	}
	return b
}

// uncompressed header: 17-bit length, flag at bit 17, 3 bytes little-endian, then CRC-24 little-endian
func refHeaderUncompressed(length uint32, selfContained bool) []byte {
	h := uint64(length)
	if selfContained {
		h |= 1 << 17
	}
	return refLE(refLE(nil, h, 3), uint64(refCrc24(h, 3)), 3)
}

// compressed header: compressed length (17), uncompressed length (17), flag at bit 34, 5 bytes LE, CRC-24 LE
func refHeaderCompressed(compressed, uncompressed uint32, selfContained bool) []byte {
	h := uint64(compressed) | uint64(uncompressed)<<17
	if selfContained {
		h |= 1 << 34
	}
	return refLE(refLE(nil, h, 5), uint64(refCrc24(h, 5)), 3)
}

// ---- (1) header, all values ----

func VerifC06_HeaderUncompressed_AllValues() {
	n := nd.Uint32("len") & MaxPayloadLength // every 17-bit length
	sc := nd.Choice("selfcontained", 2) == 1
	c := &codec{}
	buf := &bytes.Buffer{}
	err := c.encodeHeaderUncompressed(&Header{IsSelfContained: sc, UncompressedPayloadLength: int32(n)}, buf)
	nd.Assert(err == nil, "header encodes")
	nd.Assert(bytes.Equal(buf.Bytes(), refHeaderUncompressed(n, sc)), "uncompressed header bytes = 3-byte LE header + CRC-24 per the v5 framing layout")
	h, err := c.decodeSegmentHeader(buf)
	nd.Assert(err == nil, "own header decodes")
	if err == nil {
		nd.Assert(uint32(h.UncompressedPayloadLength) == n, "decoded length")
		nd.Assert(h.IsSelfContained == sc, "decoded flag")
		nd.Assert(h.CompressedPayloadLength == 0, "no compressed length without compressor")
	}
}

func VerifC06_HeaderCompressed_AllValues() {
	k := nd.Uint32("compressed") & MaxPayloadLength // every pair of 17-bit lengths
	u := nd.Uint32("uncompressed") & MaxPayloadLength
	sc := nd.Choice("selfcontained", 2) == 1
	c := &codec{compressor: lz4.Compressor{}}
	buf := &bytes.Buffer{}
	err := c.encodeHeaderCompressed(&Header{IsSelfContained: sc, UncompressedPayloadLength: int32(u), CompressedPayloadLength: int32(k)}, buf)
	nd.Assert(err == nil, "header encodes")
	nd.Assert(bytes.Equal(buf.Bytes(), refHeaderCompressed(k, u, sc)), "compressed header bytes = 5-byte LE header + CRC-24 per the v5 framing layout")
	h, err := c.decodeSegmentHeader(buf)
	nd.Assert(err == nil, "own header decodes")
	if err == nil {
		nd.Assert(h.IsSelfContained == sc, "decoded flag")
		if u == 0 {
			// uncompressed fallback: the first field carries the raw length
			nd.Assert(uint32(h.UncompressedPayloadLength) == k, "fallback: raw length taken from the first field")
			nd.Assert(h.CompressedPayloadLength == 0, "fallback: no compressed length")
		} else {
			nd.Assert(uint32(h.UncompressedPayloadLength) == u, "decoded uncompressed length")
			nd.Assert(uint32(h.CompressedPayloadLength) == k, "decoded compressed length")
		}
	}
}

func VerifC06_Crc24_3bytes() {
	d := nd.Uint64("d")
	nd.Assert(crc.ChecksumKoopman(d, 3) == refCrc24(d, 3), "ChecksumKoopman(d,3) = Cassandra's CRC-24 of the low 3 bytes")
}

func VerifC06_Crc24_5bytes() {
	d := nd.Uint64("d")
	nd.Assert(crc.ChecksumKoopman(d, 5) == refCrc24(d, 5), "ChecksumKoopman(d,5) = Cassandra's CRC-24 of the low 5 bytes")
}

func VerifC06_Crc32_Seeded() {
	n := nd.Len("n", 0, 4)
	p := nd.Bytes("p", n)
	nd.Assert(crc.ChecksumIEEE(p) == refCrc32(p), "ChecksumIEEE = CRC-32 seeded with FA 2D 55 CA")
}

// ---- (2) whole segment, small payloads ----

func verifSegmentUncompressed(n int) {
	p := nd.Bytes("p", n)
	sc := nd.Bool("selfcontained")
	c := NewCodec()
	buf := &bytes.Buffer{}
	seg := &Segment{Header: &Header{IsSelfContained: sc}, Payload: &Payload{UncompressedData: p}}
	err := c.EncodeSegment(seg, buf)
	nd.Assert(err == nil, "segment encodes")
	want := refHeaderUncompressed(uint32(n), sc)
	want = append(want, p...)
	want = refLE(want, uint64(refCrc32(p)), 4)
	nd.Assert(bytes.Equal(buf.Bytes(), want), "segment bytes = header, payload, CRC-32 LE per the v5 framing layout")
	buf.Write([]byte{0xAA, 0xBB})
	g, err := c.DecodeSegment(buf)
	nd.Assert(err == nil, "segment decodes")
	if err == nil {
		nd.Assert(bytes.Equal(g.Payload.UncompressedData, p), "payload round trip")
		nd.Assert(g.Header.IsSelfContained == sc, "flag round trip")
		nd.Assert(int(g.Header.UncompressedPayloadLength) == n, "header length consistent with payload")
		nd.Assert(buf.Len() == 2, "decoder consumed exactly one segment")
	}
}

func verifSegmentCompressed(n int, policy int) {
	nd.CompressPolicy(policy)
	p := nd.Bytes("p", n)
	sc := nd.Bool("selfcontained")
	c := NewCodecWithCompression(lz4.Compressor{})
	buf := &bytes.Buffer{}
	seg := &Segment{Header: &Header{IsSelfContained: sc}, Payload: &Payload{UncompressedData: p}}
	err := c.EncodeSegment(seg, buf)
	nd.Assert(err == nil, "segment encodes with LZ4")
	if err != nil {
		return
	}
	// structural conformance: parse the emitted header with the reference and check both regimes
	b := append([]byte{}, buf.Bytes()...)
	nd.Assert(len(b) >= 8+4, "header + CRC-32 present")
	var h uint64
	for i := 4; i >= 0; i-- {
		h = h<<8 | uint64(b[i])
	}
	kField := uint32(h & 0x1FFFF)
	uField := uint32((h >> 17) & 0x1FFFF)
	nd.Assert(((h>>34)&1 == 1) == sc, "flag bit 34")
	nd.Assert(h>>35 == 0, "padding bits are zero")
	nd.Assert(bytes.Equal(b[:8], refHeaderCompressed(kField, uField, sc)), "header CRC-24 per the layout")
	body := b[8 : len(b)-4]
	nd.Assert(int(kField) == len(body), "first length field = number of payload bytes transmitted")
	if uField == 0 {
		nd.Assert(bytes.Equal(body, p), "fallback (uncompressed length field 0): payload transmitted raw")
	} else {
		nd.Assert(int(uField) == n, "uncompressed length field = payload length")
		nd.Assert(len(body) <= n, "compressed form only when not larger than the raw payload")
	}
	var crcGot uint32
	for i := 3; i >= 0; i-- {
		crcGot = crcGot<<8 | uint32(b[len(b)-4+i])
	}
	nd.Assert(crcGot == refCrc32(body), "CRC-32 of the payload as transmitted, little-endian")
	buf.Write([]byte{0xAA, 0xBB})
	g, err := c.DecodeSegment(buf)
	nd.Assert(err == nil, "LZ4 segment decodes")
	if err == nil {
		nd.Assert(bytes.Equal(g.Payload.UncompressedData, p), "payload round trip")
		nd.Assert(g.Header.IsSelfContained == sc, "flag round trip")
		nd.Assert(int(g.Header.UncompressedPayloadLength) == n, "header length consistent with payload")
		nd.Assert(buf.Len() == 2, "decoder consumed exactly one segment")
	}
}

func VerifC06_Segment_n0() { verifSegmentUncompressed(0) }
func VerifC06_Segment_n1() { verifSegmentUncompressed(1) }
func VerifC06_Segment_n2() { verifSegmentUncompressed(2) }
func VerifC06_Segment_n5() { verifSegmentUncompressed(5) }
func VerifC06_Segment_n8() { verifSegmentUncompressed(8) }

func VerifC06_SegmentLZ4_n0() { verifSegmentCompressed(0, 0) }
func VerifC06_SegmentLZ4_n1() { verifSegmentCompressed(1, 0) }
func VerifC06_SegmentLZ4_n2() { verifSegmentCompressed(2, 0) }
func VerifC06_SegmentLZ4_n5() { verifSegmentCompressed(5, 0) }
func VerifC06_SegmentLZ4_n8() { verifSegmentCompressed(8, 0) }

// high-ratio payloads: only lengths, flag and decode path matter; replays natively with repetitive content
func VerifC06_SegmentLZ4_n300_maxratio() { verifSegmentCompressed(300, 1) }

// payloads above 128:1 need the last (256x) step of the decompressor's buffer search
func VerifC06_SegmentLZ4_n8192_maxratio() { verifSegmentCompressed(8192, 1) }

// incompressible payloads at the top of the legal range: the block the compressor returns is longer than the payload
// (and than the 17-bit length field), the segment must fall back to the raw payload. The content is a fixed
// pseudo-random stream, so that the real compressor behaves the same way when the harness is replayed natively.
func verifSegmentIncompressible(n int) {
	nd.CompressPolicy(2)
	p := make([]byte, n)
	st := uint32(2463534242)
	for i := range p {
		st ^= st << 13
		st ^= st >> 17
		st ^= st << 5
		p[i] = byte(st >> 11)
	}
	sc := nd.Bool("selfcontained")
	c := NewCodecWithCompression(lz4.Compressor{})
	buf := &bytes.Buffer{}
	err := c.EncodeSegment(&Segment{Header: &Header{IsSelfContained: sc}, Payload: &Payload{UncompressedData: p}}, buf)
	nd.Assert(err == nil, "an incompressible payload of legal length encodes with LZ4 (uncompressed fallback)")
	if err != nil {
		return
	}
	b := buf.Bytes()
	nd.Assert(len(b) == 8+n+4, "fallback: header, the raw payload, CRC-32")
	if len(b) != 8+n+4 {
		return
	}
	nd.Assert(bytes.Equal(b[:8], refHeaderCompressed(uint32(n), 0, sc)), "fallback header: raw length in the first field, uncompressed length field 0")
	nd.Assert(bytes.Equal(b[8:8+n], p), "fallback: payload transmitted raw")
	g, err := c.DecodeSegment(buf)
	nd.Assert(err == nil, "the fallback segment decodes")
	if err == nil {
		nd.Assert(bytes.Equal(g.Payload.UncompressedData, p), "payload round trip")
		nd.Assert(g.Header.IsSelfContained == sc, "flag round trip")
	}
}

func VerifC06_SegmentLZ4_n131071_incompressible() { verifSegmentIncompressible(MaxPayloadLength) }
func VerifC06_SegmentLZ4_n130600_incompressible() { verifSegmentIncompressible(130600) }
func VerifC06_SegmentLZ4_n40_incompressible()     { verifSegmentIncompressible(40) }

// C08 (segment-payload format): a segment encoded with LZ4 decodes to the same content, whatever the ratio
func VerifC08_SegmentLZ4_n5()                   { verifSegmentCompressed(5, 0) }
func VerifC08_SegmentLZ4_n300_maxratio()        { verifSegmentCompressed(300, 1) }
func VerifC08_SegmentLZ4_n8192_maxratio()       { verifSegmentCompressed(8192, 1) }
func VerifC08_SegmentLZ4_n131071_incompressible() { verifSegmentIncompressible(MaxPayloadLength) }
func VerifC08_SegmentLZ4_n130600_incompressible() { verifSegmentIncompressible(130600) }

// ---- (3) refusal above the maximum ----

func VerifC06_RefuseTooLarge() {
	p := make([]byte, MaxPayloadLength+1)
	c := NewCodec()
	buf := &bytes.Buffer{}
	err := c.EncodeSegment(&Segment{Header: &Header{IsSelfContained: nd.Bool("sc")}, Payload: &Payload{UncompressedData: p}}, buf)
	nd.Assert(err != nil, "payload of 131072 bytes is refused")
	nd.Assert(buf.Len() == 0, "nothing written for a refused payload")
	c2 := NewCodecWithCompression(lz4.Compressor{})
	err = c2.EncodeSegment(&Segment{Header: &Header{}, Payload: &Payload{UncompressedData: p}}, buf)
	nd.Assert(err != nil, "refused with a compressor too")
	nd.Assert(buf.Len() == 0, "nothing written")
}

// thorough tier: longer payloads
func verifThoroughOnly(f func()) {
	if !verifThorough {
		nd.Assert(true, "thorough tier only")
		return
	}
	f()
}

func VerifC06_Segment_n16()    { verifThoroughOnly(func() { verifSegmentUncompressed(16) }) }
func VerifC06_Segment_n24()    { verifThoroughOnly(func() { verifSegmentUncompressed(24) }) }
func VerifC06_SegmentLZ4_n16() { verifThoroughOnly(func() { verifSegmentCompressed(16, 0) }) }
func VerifC06_SegmentLZ4_n24() { verifThoroughOnly(func() { verifSegmentCompressed(24, 0) }) }
func VerifC06_SegmentLZ4_n5000_maxratio() {
	verifThoroughOnly(func() { verifSegmentCompressed(5000, 1) })
}
