package frame

import (
	"bytes"

	"github.com/datastax/go-cassandra-native-protocol/compression/lz4"
	"github.com/datastax/go-cassandra-native-protocol/compression/snappy"
	nd "github.com/datastax/go-cassandra-native-protocol/internal/zzverifnd"
	"github.com/datastax/go-cassandra-native-protocol/primitive"
)

// C18: codec calls on distinct frames through one shared codec write only to their own arguments and to memory
// they allocate (nd.Concurrently); natively the same calls run in parallel under the race detector.

func verifC18Work(c RawCodec, f *Frame, v primitive.ProtocolVersion) func() {
	return func() {
		buf := &bytes.Buffer{}
		if err := c.EncodeFrame(f, buf); err != nil {
			return
		}
		b := buf.Bytes()
		g, err := c.DecodeFrame(bytes.NewReader(b))
		if err != nil || g == nil {
			return
		}
		raw, err := c.DecodeRawFrame(bytes.NewReader(b))
		if err == nil {
			c.ConvertFromRawFrame(raw)
		}
		if r2, err := c.ConvertToRawFrame(f); err == nil {
			c.EncodeRawFrame(r2, &bytes.Buffer{})
		}
		h, err := c.DecodeHeader(bytes.NewReader(b))
		if err == nil {
			c.DiscardBody(h, bytes.NewReader(b[v.FrameHeaderLengthInBytes():]))
		}
	}
}

func verifC18(kind string, v primitive.ProtocolVersion, alg int) {
	nd.CompressPolicy(2)
	var c RawCodec
	switch alg {
	case 0:
		c = NewRawCodec()
	case 1:
		c = NewRawCodecWithCompression(lz4.Compressor{})
	default:
		c = NewRawCodecWithCompression(snappy.Compressor{})
	}
	f1 := verifFrame(kind, v, alg != 0)
	verifOptFixed = 3 // the second frame has every optional part (mode "all but site 99"), values arbitrary, no type variation
	f2 := verifFrame(kind, v, alg != 0)
	verifOptFixed = -1
	n := nd.Concurrently(verifC18Work(c, f1, v), verifC18Work(c, f2, v))
	nd.Assert(n == 0, "concurrent codec calls on distinct frames write no shared or package-level memory")
}

func VerifC18_Frame_Query_v4()            { verifC18("Query", primitive.ProtocolVersion4, 0) }
func VerifC18_Frame_Query_v5_LZ4()        { verifC18("Query", primitive.ProtocolVersion5, 1) }
func VerifC18_Frame_Execute_dse2_Snappy() { verifC18("Execute", primitive.ProtocolVersionDse2, 2) }
func VerifC18_Frame_Batch_v5()            { verifC18("Batch", primitive.ProtocolVersion5, 0) }
func VerifC18_Frame_RowsResult_v4_LZ4()   { verifC18("RowsResult", primitive.ProtocolVersion4, 1) }
func VerifC18_Frame_PreparedResult_v5()   { verifC18("PreparedResult", primitive.ProtocolVersion5, 0) }
func VerifC18_Frame_ReadFailure_v5()      { verifC18("ReadFailure", primitive.ProtocolVersion5, 0) }
func VerifC18_Frame_SchemaChangeEvent_v4() {
	verifC18("SchemaChangeEvent", primitive.ProtocolVersion4, 0)
}
func VerifC18_Frame_Supported_v3()  { verifC18("Supported", primitive.ProtocolVersion3, 0) }
func VerifC18_Frame_Startup_v4()    { verifC18("Startup", primitive.ProtocolVersion4, 0) }
func VerifC18_Frame_Register_v4()   { verifC18("Register", primitive.ProtocolVersion4, 0) }
func VerifC18_Frame_Revise_dse2()   { verifC18("Revise", primitive.ProtocolVersionDse2, 0) }
func VerifC18_Frame_Unprepared_v2() { verifC18("Unprepared", primitive.ProtocolVersion2, 0) }
