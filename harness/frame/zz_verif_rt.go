package frame

import (
	"bytes"

	"github.com/datastax/go-cassandra-native-protocol/compression/lz4"
	"github.com/datastax/go-cassandra-native-protocol/compression/snappy"
	nd "github.com/datastax/go-cassandra-native-protocol/internal/zzverifnd"
	"github.com/datastax/go-cassandra-native-protocol/primitive"
)

const (
	verifModeC01 = 1 << iota // round-trip fidelity
	verifModeC03             // declared lengths, exact consumption
	verifModeC05             // raw / partial operations
)

// verifRoundTrip: encode an arbitrary version-valid frame, decode the bytes followed by an arbitrary suffix.
func verifRoundTrip(kind string, v primitive.ProtocolVersion, mode int) {
	f := verifFrame(kind, v, false)
	codec := NewRawCodec()
	buf := &bytes.Buffer{}
	err := codec.EncodeFrame(f, buf)
	nd.Assert(err == nil, "version-valid frame encodes without error")
	if err != nil {
		return
	}
	encLen := buf.Len()
	if mode&verifModeC03 != 0 {
		nd.Assert(int(f.Header.BodyLength) == encLen-v.FrameHeaderLengthInBytes(), "header body length equals emitted body bytes")
		mc, _ := codec.(*codec_t).findMessageCodec(f.Header.OpCode)
		ml, merr := mc.EncodedLength(f.Body.Message, v)
		mb := &bytes.Buffer{}
		eerr := mc.Encode(f.Body.Message, mb, v)
		nd.Assert(merr == nil && eerr == nil, "message codec encodes and reports a length")
		nd.Assert(ml == mb.Len(), "EncodedLength equals bytes written by Encode")
	}
	suffix := nd.Bytes("suffix", 2)
	buf.Write(suffix)
	g, err := codec.DecodeFrame(buf)
	nd.Assert(err == nil, "encoded frame decodes without error")
	if err != nil {
		return
	}
	if mode&verifModeC01 != 0 {
		verifEq_PFrame("frame", f, g)
	}
	if mode&verifModeC03 != 0 {
		nd.Assert(buf.Len() == 2, "decoder consumed exactly header + declared body length")
		nd.Assert(bytes.Equal(buf.Bytes(), suffix), "bytes after the frame are untouched")
		nd.Assert(g.Header.BodyLength == f.Header.BodyLength, "decoded header carries the declared length")
	}
}

type codec_t = codec

// verifConformance (C02): bytes emitted == bytes prescribed by the reference encoder written from the specs;
// spec-formatted bytes decode to the message they denote.
func verifConformance(kind string, v primitive.ProtocolVersion) {
	f := verifFrame(kind, v, false)
	if verifMultiEntryMap {
		nd.Assume(false)
	}
	want := refFrame(f)
	codec := NewRawCodec()
	buf := &bytes.Buffer{}
	err := codec.EncodeFrame(f, buf)
	nd.Assert(err == nil, "version-valid frame encodes without error")
	if err != nil {
		return
	}
	got := buf.Bytes()
	nd.Assert(len(got) == len(want), "emitted length equals the length prescribed by the specification")
	nd.Assert(bytes.Equal(got, want), "emitted bytes equal the bytes prescribed by the specification")
	g, err := codec.DecodeFrame(bytes.NewReader(want))
	nd.Assert(err == nil, "specification-formatted bytes decode without error")
	if err != nil {
		return
	}
	verifEq_PFrame("spec-bytes", f, g)
}

// verifHeaderRejection (C02c): all 2^72 header byte strings.
func VerifC02_HeaderRejection() {
	b := nd.Bytes("h", 9)
	codec := NewRawCodec()
	h, err := codec.DecodeHeader(bytes.NewReader(b))
	ver := b[0] & 0x7f
	resp := b[0]&0x80 != 0
	if !nd.In(uint64(ver), 2, 3, 4, 5, 0x41, 0x42) {
		nd.Assert(err != nil, "unsupported version byte is rejected")
		return
	}
	var op byte
	if ver == 2 {
		op = b[3]
	} else {
		op = b[4]
	}
	isReq := nd.In(uint64(op), 0x01, 0x05, 0x07, 0x09, 0x0A, 0x0B, 0x0D, 0x0F, 0xFF)
	isResp := nd.In(uint64(op), 0x00, 0x02, 0x03, 0x06, 0x08, 0x0C, 0x0E, 0x10)
	ok := isReq
	if resp {
		ok = isResp
	}
	nd.Assert((err == nil) == ok, "header accepted exactly when the opcode is declared and matches the direction bit")
	if err != nil {
		return
	}
	nd.Assert(uint8(h.Version) == ver, "version")
	nd.Assert(h.IsResponse == resp, "direction")
	nd.Assert(uint8(h.Flags) == b[1], "flags")
	nd.Assert(uint8(h.OpCode) == op, "opcode")
	if ver == 2 {
		nd.Assert(h.StreamId == int16(int8(b[2])), "v2 stream id is a signed byte")
		nd.Assert(uint32(h.BodyLength) == uint32(b[4])<<24|uint32(b[5])<<16|uint32(b[6])<<8|uint32(b[7]), "length")
	} else {
		nd.Assert(uint16(h.StreamId) == uint16(b[2])<<8|uint16(b[3]), "stream id is a [short]")
		nd.Assert(uint32(h.BodyLength) == uint32(b[5])<<24|uint32(b[6])<<16|uint32(b[7])<<8|uint32(b[8]), "length")
	}
}

func VerifC02_EncodeHeaderUnsupportedVersion() {
	h := &Header{Version: primitive.ProtocolVersion(nd.Uint8("v")), Flags: primitive.HeaderFlag(nd.Uint8("f")), StreamId: nd.Int16("s"), OpCode: primitive.OpCode(nd.Uint8("op")), BodyLength: nd.Int32("len"), IsResponse: nd.Bool("resp")}
	buf := &bytes.Buffer{}
	err := NewRawCodec().EncodeHeader(h, buf)
	if !nd.In(uint64(h.Version), 2, 3, 4, 5, 0x41, 0x42) {
		nd.Assert(err != nil, "unsupported version is refused by the encoder")
		nd.Assert(buf.Len() == 0, "nothing written for an unsupported version")
	}
}

// verifPartialOps (C05): the raw / header-only operations agree with the full codec.
func verifPartialOps(kind string, v primitive.ProtocolVersion) { verifPartialOpsAlg(kind, v, -1) }

// alg: -1 no compression, 0 LZ4, 1 Snappy (block functions are contract stubs; low-ratio policy as in C01)
func verifPartialOpsAlg(kind string, v primitive.ProtocolVersion, alg int) {
	f := verifFrame(kind, v, alg >= 0)
	c := NewRawCodec()
	if alg >= 0 {
		nd.CompressPolicy(2)
		if v == primitive.ProtocolVersion5 && alg == 1 {
			alg = 0 // Snappy is not defined for v5
		}
		var bc BodyCompressor = lz4.Compressor{}
		if alg == 1 {
			bc = snappy.Compressor{}
		}
		c = NewRawCodecWithCompression(bc)
	}
	buf := &bytes.Buffer{}
	err := c.EncodeFrame(f, buf)
	nd.Assert(err == nil, "version-valid frame encodes without error")
	if err != nil {
		return
	}
	b := append([]byte{}, buf.Bytes()...)
	hl := v.FrameHeaderLengthInBytes()
	suffix := nd.Bytes("suffix", 2)
	withSuffix := append(append([]byte{}, b...), suffix...)

	// (1) DecodeRawFrame + ConvertFromRawFrame == DecodeFrame
	src := bytes.NewBuffer(append([]byte{}, withSuffix...))
	raw, err := c.DecodeRawFrame(src)
	nd.Assert(err == nil, "raw frame decodes")
	if err == nil {
		nd.Assert(src.Len() == 2, "DecodeRawFrame consumes exactly header + declared body length")
		nd.Assert(bytes.Equal(raw.Body, b[hl:]), "raw body is the encoded body")
		g, err := c.ConvertFromRawFrame(raw)
		nd.Assert(err == nil, "raw frame converts")
		if err == nil {
			verifEq_PFrame("raw->frame", f, g)
		}
	}
	// (2) ConvertToRawFrame + EncodeRawFrame gives the same bytes
	raw2, err := c.ConvertToRawFrame(f)
	nd.Assert(err == nil, "frame converts to raw")
	if err == nil {
		out := &bytes.Buffer{}
		err = c.EncodeRawFrame(raw2, out)
		nd.Assert(err == nil, "raw frame encodes")
		nd.Assert(bytes.Equal(out.Bytes(), b), "ConvertToRawFrame+EncodeRawFrame emits the bytes of EncodeFrame")
	}
	// the raw frame itself is consistent (a proxy forwards its header and body as they are) and converts back
	raw3, err := c.ConvertToRawFrame(f)
	if err == nil {
		nd.Assert(int(raw3.Header.BodyLength) == len(raw3.Body), "the header of a converted raw frame declares the length of its raw body")
		g3, err := c.ConvertFromRawFrame(raw3)
		nd.Assert(err == nil, "a converted raw frame converts back")
		if err == nil {
			verifEq_PFrame("frame->raw->frame", f, g3)
		}
	}
	// (3) header then body / raw body / discard, seekable and non-seekable sources
	for mode := 0; mode < 6; mode++ {
		var rd interface {
			Read([]byte) (int, error)
			Len() int
		}
		if mode%2 == 0 {
			rd = bytes.NewReader(withSuffix)
		} else {
			rd = bytes.NewBuffer(append([]byte{}, withSuffix...))
		}
		h, err := c.DecodeHeader(rd)
		nd.Assert(err == nil, "header decodes")
		if err != nil {
			continue
		}
		nd.Assert(int(h.BodyLength) == len(b)-hl, "decoded header length is the emitted body length")
		switch mode {
		case 0, 1:
			err = c.DiscardBody(h, rd)
			nd.Assert(err == nil, "DiscardBody succeeds")
		case 2, 3:
			var rb []byte
			rb, err = c.DecodeRawBody(h, rd)
			nd.Assert(err == nil, "DecodeRawBody succeeds")
			nd.Assert(bytes.Equal(rb, b[hl:]), "DecodeRawBody returns the encoded body")
		case 4, 5:
			var body *Body
			body, err = c.DecodeBody(h, rd)
			nd.Assert(err == nil, "DecodeBody succeeds")
			if err == nil {
				verifEq_PBody("header+body", f.Body, body)
			}
		}
		nd.Assert(rd.Len() == 2, "reader stands exactly after the declared body length")
	}
	// (4) EncodeHeader + EncodeBody writes the same bytes
	out := &bytes.Buffer{}
	err = c.EncodeHeader(f.Header, out)
	nd.Assert(err == nil, "header encodes")
	err = c.EncodeBody(f.Header, f.Body, out)
	nd.Assert(err == nil, "body encodes")
	nd.Assert(bytes.Equal(out.Bytes(), b), "EncodeHeader+EncodeBody emits the bytes of EncodeFrame")
}

// verifReencode (C05, last clause): any input that decodes, re-encoded, decodes again to an equal frame.
// The input is fully symbolic apart from the version (one harness per version) and its length.
func verifReencode(v primitive.ProtocolVersion, n int) {
	nd.AllocBound(n)
	b := nd.Bytes("in", n)
	b[0] = byte(v) | (b[0] & 0x80)
	c := NewRawCodec()
	g, err := c.DecodeFrame(bytes.NewReader(b))
	if err != nil {
		nd.Assert(g == nil, "a rejected input yields no frame")
		return
	}
	buf := &bytes.Buffer{}
	err = c.EncodeFrame(g, buf)
	if err != nil {
		// e.g. a frame the decoder accepts but the encoder refuses to produce; the clause speaks of inputs that are re-encoded
		nd.Note("decodable input that the encoder refuses to re-encode")
		nd.Assert(true, "not re-encodable")
		return
	}
	enc := append([]byte{}, buf.Bytes()...)
	hl := v.FrameHeaderLengthInBytes()
	nd.Assert(int(g.Header.BodyLength) == len(enc)-hl, "re-encoded frame: declared body length equals emitted body bytes")
	g2, err := c.DecodeFrame(buf)
	nd.Assert(err == nil, "re-encoded bytes decode")
	if err == nil {
		verifEq_PFrame("reencode", g, g2)
	}
	// the raw path agrees with the full codec on these (possibly non-canonical) frames too
	src := bytes.NewBuffer(append(append([]byte{}, enc...), 0xAA, 0xBB))
	raw, err := c.DecodeRawFrame(src)
	nd.Assert(err == nil, "re-encoded bytes decode as a raw frame")
	if err == nil {
		nd.Assert(src.Len() == 2, "raw decoding of the re-encoded frame consumes exactly the frame")
		g3, err := c.ConvertFromRawFrame(raw)
		nd.Assert(err == nil, "raw re-encoded frame converts")
		if err == nil {
			verifEq_PFrame("reencode-raw", g, g3)
		}
	}
	rd := bytes.NewReader(append(append([]byte{}, enc...), 0xAA, 0xBB))
	h, err := c.DecodeHeader(rd)
	nd.Assert(err == nil, "re-encoded header decodes")
	if err == nil {
		nd.Assert(c.DiscardBody(h, rd) == nil, "DiscardBody on the re-encoded frame succeeds")
		nd.Assert(rd.Len() == 2, "DiscardBody on the re-encoded frame stops exactly at the next frame")
	}
}

func verifReencodeLen() int {
	if verifThorough {
		return 9 + 9
	}
	return 9 + 5
}

func VerifC05_Reencode_v2()   { verifReencode(primitive.ProtocolVersion2, verifReencodeLen()-1) }
func VerifC05_Reencode_v3()   { verifReencode(primitive.ProtocolVersion3, verifReencodeLen()) }
func VerifC05_Reencode_v4()   { verifReencode(primitive.ProtocolVersion4, verifReencodeLen()) }
func VerifC05_Reencode_v5()   { verifReencode(primitive.ProtocolVersion5, verifReencodeLen()) }
func VerifC05_Reencode_dse1() { verifReencode(primitive.ProtocolVersionDse1, verifReencodeLen()) }
func VerifC05_Reencode_dse2() { verifReencode(primitive.ProtocolVersionDse2, verifReencodeLen()) }

// ---- compression variants (C01 with LZ4 / Snappy): the block compressors are contract stubs under the engine ----

func verifRoundTripCompressed(kind string, v primitive.ProtocolVersion, alg int, policy int) {
	nd.CompressPolicy(policy)
	f := verifFrame(kind, v, true)
	var bc BodyCompressor
	if alg == 0 {
		bc = lz4.Compressor{}
	} else {
		bc = snappy.Compressor{}
	}
	codec := NewRawCodecWithCompression(bc)
	buf := &bytes.Buffer{}
	err := codec.EncodeFrame(f, buf)
	nd.Assert(err == nil, "version-valid frame encodes with compression")
	if err != nil {
		return
	}
	nd.Assert(int(f.Header.BodyLength) == buf.Len()-v.FrameHeaderLengthInBytes(), "header body length equals emitted (compressed) body bytes")
	suffix := nd.Bytes("suffix", 2)
	buf.Write(suffix)
	g, err := codec.DecodeFrame(buf)
	nd.Assert(err == nil, "compressed frame decodes without error")
	if err != nil {
		return
	}
	verifEq_PFrame("frame", f, g)
	nd.Assert(buf.Len() == 2, "decoder consumed exactly header + declared body length")
}
