package frame

import (
	"bytes"

	nd "github.com/datastax/go-cassandra-native-protocol/internal/zzverifnd"
	"github.com/datastax/go-cassandra-native-protocol/primitive"
)

const (
	verifModeC01 = 1 << iota // round-trip fidelity
	verifModeC03             // declared lengths, exact consumption
	verifModeC05             // raw / partial operations
)

// verifRoundTrip: encode an arbitrary version-valid frame, decode the bytes followed by an arbitrary suffix.
func verifRoundTrip(kind string, v primitive.ProtocolVersion, mode int) {
	f := verifFrame(kind, v, false)
	codec := NewRawCodec()
	buf := &bytes.Buffer{}
	err := codec.EncodeFrame(f, buf)
	nd.Assert(err == nil, "version-valid frame encodes without error")
	if err != nil {
		return
	}
	encLen := buf.Len()
	if mode&verifModeC03 != 0 {
		nd.Assert(int(f.Header.BodyLength) == encLen-v.FrameHeaderLengthInBytes(), "header body length equals emitted body bytes")
		mc, _ := codec.(*codec_t).findMessageCodec(f.Header.OpCode)
		ml, merr := mc.EncodedLength(f.Body.Message, v)
		mb := &bytes.Buffer{}
		eerr := mc.Encode(f.Body.Message, mb, v)
		nd.Assert(merr == nil && eerr == nil, "message codec encodes and reports a length")
		nd.Assert(ml == mb.Len(), "EncodedLength equals bytes written by Encode")
	}
	suffix := nd.Bytes("suffix", 2)
	buf.Write(suffix)
	g, err := codec.DecodeFrame(buf)
	nd.Assert(err == nil, "encoded frame decodes without error")
	if err != nil {
		return
	}
	if mode&verifModeC01 != 0 {
		verifEq_PFrame("frame", f, g)
	}
	if mode&verifModeC03 != 0 {
		nd.Assert(buf.Len() == 2, "decoder consumed exactly header + declared body length")
		nd.Assert(bytes.Equal(buf.Bytes(), suffix), "bytes after the frame are untouched")
		nd.Assert(g.Header.BodyLength == f.Header.BodyLength, "decoded header carries the declared length")
	}
}

type codec_t = codec
