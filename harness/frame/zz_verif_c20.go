package frame

import (
	"bytes"

	"github.com/datastax/go-cassandra-native-protocol/compression/lz4"
	nd "github.com/datastax/go-cassandra-native-protocol/internal/zzverifnd"
	"github.com/datastax/go-cassandra-native-protocol/message"
	"github.com/datastax/go-cassandra-native-protocol/primitive"
)

// Frame mutators (C20). Invariant after every call:
//   payload flag <=> len(CustomPayload) > 0; warning flag <=> len(Warnings) > 0;
//   responses: tracing flag <=> TracingId != nil; requests: tracing flag <=> last RequestTracingId argument;
//   compression flag => opcode not in {STARTUP, OPTIONS, READY}.

func verifC20Message(k int) message.Message {
	switch k {
	case 0:
		return &message.Startup{Options: map[string]string{"CQL_VERSION": "3.0.0"}}
	case 1:
		return &message.Options{}
	case 2:
		return &message.Ready{}
	case 3:
		return &message.Query{Query: "q", Options: &message.QueryOptions{Consistency: primitive.ConsistencyLevelOne}}
	case 4:
		return &message.VoidResult{}
	}
	return &message.ServerError{ErrorMessage: "e"}
}

type verifC20State struct {
	tracingRequested bool
}

func verifC20Invariant(f *Frame, st *verifC20State, where string) {
	fl := f.Header.Flags
	nd.Assert(fl.Contains(primitive.HeaderFlagCustomPayload) == (len(f.Body.CustomPayload) > 0), where+": custom payload flag <=> payload present")
	nd.Assert(fl.Contains(primitive.HeaderFlagWarning) == (len(f.Body.Warnings) > 0), where+": warning flag <=> warnings present")
	if f.Header.IsResponse {
		nd.Assert(fl.Contains(primitive.HeaderFlagTracing) == (f.Body.TracingId != nil), where+": response tracing flag <=> tracing id present")
	} else {
		nd.Assert(fl.Contains(primitive.HeaderFlagTracing) == st.tracingRequested, where+": request tracing flag <=> tracing requested")
	}
	if fl.Contains(primitive.HeaderFlagCompressed) {
		op := f.Header.OpCode
		nd.Assert(op != primitive.OpCodeStartup, where+": STARTUP never flagged compressed")
		nd.Assert(op != primitive.OpCodeOptions, where+": OPTIONS never flagged compressed")
		nd.Assert(op != primitive.OpCodeReady, where+": READY never flagged compressed")
	}
}

// one mutator call with arbitrary arguments, among those legal for direction and version per the doc comments
func verifC20Step(f *Frame, st *verifC20State, v primitive.ProtocolVersion, i string) {
	n := 2 // SetCompress(true|false)
	if f.Header.IsResponse {
		n += 2 // SetTracingId(nil|id)
	} else {
		n += 2 // RequestTracingId(true|false)
	}
	if v >= primitive.ProtocolVersion4 {
		n += 3 // SetCustomPayload(nil|empty|one)
		if f.Header.IsResponse {
			n += 3 // SetWarnings(nil|empty|one)
		}
	}
	c := nd.Choice("call"+i, n)
	switch {
	case c == 0:
		f.SetCompress(true)
	case c == 1:
		f.SetCompress(false)
	case c == 2 && f.Header.IsResponse:
		f.SetTracingId(nil)
	case c == 3 && f.Header.IsResponse:
		id := primitive.UUID{}
		copy(id[:], nd.Bytes("id"+i, 16))
		f.SetTracingId(&id)
	case c == 2:
		f.RequestTracingId(true)
		st.tracingRequested = true
	case c == 3:
		f.RequestTracingId(false)
		st.tracingRequested = false
	case c == 4:
		f.SetCustomPayload(nil)
	case c == 5:
		f.SetCustomPayload(map[string][]byte{})
	case c == 6:
		f.SetCustomPayload(map[string][]byte{"k": nd.Bytes("pv"+i, 1)})
	case c == 7:
		f.SetWarnings(nil)
	case c == 8:
		f.SetWarnings([]string{})
	case c == 9:
		f.SetWarnings([]string{nd.String("w"+i, 1)})
	}
}

func verifC20History(kind int, v primitive.ProtocolVersion, depth int) {
	msg := verifC20Message(kind)
	f := NewFrame(v, nd.Int16("stream"), msg)
	if v < primitive.ProtocolVersion3 {
		nd.Assume(f.Header.StreamId >= -128)
		nd.Assume(f.Header.StreamId <= 127)
	}
	st := &verifC20State{}
	verifC20Invariant(f, st, "NewFrame")
	for i := 0; i < depth; i++ {
		verifC20Step(f, st, v, string(rune('0'+i)))
		verifC20Invariant(f, st, "after call")
	}
	// the frame still encodes and round-trips (codec with a compressor, as the flag may be set)
	nd.CompressPolicy(2)
	codec := NewRawCodecWithCompression(lz4.Compressor{})
	buf := &bytes.Buffer{}
	err := codec.EncodeFrame(f, buf)
	nd.Assert(err == nil, "frame encodes after the mutator sequence")
	if err != nil {
		return
	}
	nd.Assert(int(f.Header.BodyLength) == buf.Len()-v.FrameHeaderLengthInBytes(), "declared body length equals emitted bytes after the mutator sequence")
	g, err := codec.DecodeFrame(buf)
	nd.Assert(err == nil, "frame decodes after the mutator sequence")
	if err == nil {
		verifEq_PFrame("frame", f, g)
		nd.Assert(buf.Len() == 0, "exact consumption")
	}
}

func verifC20Depth() int {
	if verifThorough {
		return 3
	}
	return 2
}

func VerifC20_History_Startup_v2() { verifC20History(0, primitive.ProtocolVersion2, verifC20Depth()) }
func VerifC20_History_Startup_v3() { verifC20History(0, primitive.ProtocolVersion3, verifC20Depth()) }
func VerifC20_History_Startup_v4() { verifC20History(0, primitive.ProtocolVersion4, verifC20Depth()) }
func VerifC20_History_Startup_v5() { verifC20History(0, primitive.ProtocolVersion5, verifC20Depth()) }
func VerifC20_History_Startup_dse1() { verifC20History(0, primitive.ProtocolVersionDse1, verifC20Depth()) }
func VerifC20_History_Startup_dse2() { verifC20History(0, primitive.ProtocolVersionDse2, verifC20Depth()) }
func VerifC20_History_Options_v2() { verifC20History(1, primitive.ProtocolVersion2, verifC20Depth()) }
func VerifC20_History_Options_v3() { verifC20History(1, primitive.ProtocolVersion3, verifC20Depth()) }
func VerifC20_History_Options_v4() { verifC20History(1, primitive.ProtocolVersion4, verifC20Depth()) }
func VerifC20_History_Options_v5() { verifC20History(1, primitive.ProtocolVersion5, verifC20Depth()) }
func VerifC20_History_Options_dse1() { verifC20History(1, primitive.ProtocolVersionDse1, verifC20Depth()) }
func VerifC20_History_Options_dse2() { verifC20History(1, primitive.ProtocolVersionDse2, verifC20Depth()) }
func VerifC20_History_Ready_v2() { verifC20History(2, primitive.ProtocolVersion2, verifC20Depth()) }
func VerifC20_History_Ready_v3() { verifC20History(2, primitive.ProtocolVersion3, verifC20Depth()) }
func VerifC20_History_Ready_v4() { verifC20History(2, primitive.ProtocolVersion4, verifC20Depth()) }
func VerifC20_History_Ready_v5() { verifC20History(2, primitive.ProtocolVersion5, verifC20Depth()) }
func VerifC20_History_Ready_dse1() { verifC20History(2, primitive.ProtocolVersionDse1, verifC20Depth()) }
func VerifC20_History_Ready_dse2() { verifC20History(2, primitive.ProtocolVersionDse2, verifC20Depth()) }
func VerifC20_History_Query_v2() { verifC20History(3, primitive.ProtocolVersion2, verifC20Depth()) }
func VerifC20_History_Query_v3() { verifC20History(3, primitive.ProtocolVersion3, verifC20Depth()) }
func VerifC20_History_Query_v4() { verifC20History(3, primitive.ProtocolVersion4, verifC20Depth()) }
func VerifC20_History_Query_v5() { verifC20History(3, primitive.ProtocolVersion5, verifC20Depth()) }
func VerifC20_History_Query_dse1() { verifC20History(3, primitive.ProtocolVersionDse1, verifC20Depth()) }
func VerifC20_History_Query_dse2() { verifC20History(3, primitive.ProtocolVersionDse2, verifC20Depth()) }
func VerifC20_History_Void_v2() { verifC20History(4, primitive.ProtocolVersion2, verifC20Depth()) }
func VerifC20_History_Void_v3() { verifC20History(4, primitive.ProtocolVersion3, verifC20Depth()) }
func VerifC20_History_Void_v4() { verifC20History(4, primitive.ProtocolVersion4, verifC20Depth()) }
func VerifC20_History_Void_v5() { verifC20History(4, primitive.ProtocolVersion5, verifC20Depth()) }
func VerifC20_History_Void_dse1() { verifC20History(4, primitive.ProtocolVersionDse1, verifC20Depth()) }
func VerifC20_History_Void_dse2() { verifC20History(4, primitive.ProtocolVersionDse2, verifC20Depth()) }
func VerifC20_History_Error_v2() { verifC20History(5, primitive.ProtocolVersion2, verifC20Depth()) }
func VerifC20_History_Error_v3() { verifC20History(5, primitive.ProtocolVersion3, verifC20Depth()) }
func VerifC20_History_Error_v4() { verifC20History(5, primitive.ProtocolVersion4, verifC20Depth()) }
func VerifC20_History_Error_v5() { verifC20History(5, primitive.ProtocolVersion5, verifC20Depth()) }
func VerifC20_History_Error_dse1() { verifC20History(5, primitive.ProtocolVersionDse1, verifC20Depth()) }
func VerifC20_History_Error_dse2() { verifC20History(5, primitive.ProtocolVersionDse2, verifC20Depth()) }
