package frame

import (
	"bytes"

	"github.com/datastax/go-cassandra-native-protocol/compression/lz4"
	nd "github.com/datastax/go-cassandra-native-protocol/internal/zzverifnd"
	"github.com/datastax/go-cassandra-native-protocol/message"
	"github.com/datastax/go-cassandra-native-protocol/primitive"
)

// Frame mutators (C20). Invariant after every call:
//   payload flag <=> len(CustomPayload) > 0; warning flag <=> len(Warnings) > 0;
//   responses: tracing flag <=> TracingId != nil; requests: tracing flag <=> last RequestTracingId argument;
//   compression flag => opcode not in {STARTUP, OPTIONS, READY}.

func verifC20Message(k int) message.Message {
	switch k {
	case 0:
		return &message.Startup{Options: map[string]string{"CQL_VERSION": "3.0.0"}}
	case 1:
		return &message.Options{}
	case 2:
		return &message.Ready{}
	case 3:
		return &message.Query{Query: "q", Options: &message.QueryOptions{Consistency: primitive.ConsistencyLevelOne}}
	case 4:
		return &message.VoidResult{}
	}
	return &message.ServerError{ErrorMessage: "e"}
}

type verifC20State struct {
	tracingRequested bool
}

func verifC20Invariant(f *Frame, st *verifC20State, where string) {
	fl := f.Header.Flags
	nd.Assert(fl.Contains(primitive.HeaderFlagCustomPayload) == (len(f.Body.CustomPayload) > 0), where+": custom payload flag <=> payload present")
	nd.Assert(fl.Contains(primitive.HeaderFlagWarning) == (len(f.Body.Warnings) > 0), where+": warning flag <=> warnings present")
	if f.Header.IsResponse {
		nd.Assert(fl.Contains(primitive.HeaderFlagTracing) == (f.Body.TracingId != nil), where+": response tracing flag <=> tracing id present")
	} else {
		nd.Assert(fl.Contains(primitive.HeaderFlagTracing) == st.tracingRequested, where+": request tracing flag <=> tracing requested")
	}
	if fl.Contains(primitive.HeaderFlagCompressed) {
		op := f.Header.OpCode
		nd.Assert(op != primitive.OpCodeStartup, where+": STARTUP never flagged compressed")
		nd.Assert(op != primitive.OpCodeOptions, where+": OPTIONS never flagged compressed")
		nd.Assert(op != primitive.OpCodeReady, where+": READY never flagged compressed")
	}
}

// one mutator call with arbitrary arguments, among those legal for direction and version per the doc comments
func verifC20Step(f *Frame, st *verifC20State, v primitive.ProtocolVersion, i string) {
	n := 2 // SetCompress(true|false)
	if f.Header.IsResponse {
		n += 2 // SetTracingId(nil|id)
	} else {
		n += 2 // RequestTracingId(true|false)
	}
	if v >= primitive.ProtocolVersion4 {
		n += 3 // SetCustomPayload(nil|empty|one)
		if f.Header.IsResponse {
			n += 3 // SetWarnings(nil|empty|one)
		}
	}
	c := nd.Choice("call"+i, n)
	switch {
	case c == 0:
		f.SetCompress(true)
	case c == 1:
		f.SetCompress(false)
	case c == 2 && f.Header.IsResponse:
		f.SetTracingId(nil)
	case c == 3 && f.Header.IsResponse:
		id := primitive.UUID{}
		copy(id[:], nd.Bytes("id"+i, 16))
		f.SetTracingId(&id)
	case c == 2:
		f.RequestTracingId(true)
		st.tracingRequested = true
	case c == 3:
		f.RequestTracingId(false)
		st.tracingRequested = false
	case c == 4:
		f.SetCustomPayload(nil)
	case c == 5:
		f.SetCustomPayload(map[string][]byte{})
	case c == 6:
		f.SetCustomPayload(map[string][]byte{"k": nd.Bytes("pv"+i, 1)})
	case c == 7:
		f.SetWarnings(nil)
	case c == 8:
		f.SetWarnings([]string{})
	case c == 9:
		f.SetWarnings([]string{nd.String("w"+i, 1)})
	}
}

func verifC20History(kind int, v primitive.ProtocolVersion, depth int) {
	msg := verifC20Message(kind)
	f := NewFrame(v, nd.Int16("stream"), msg)
	if v < primitive.ProtocolVersion3 {
		nd.Assume(f.Header.StreamId >= -128)
		nd.Assume(f.Header.StreamId <= 127)
	}
	st := &verifC20State{}
	verifC20Invariant(f, st, "NewFrame")
	for i := 0; i < depth; i++ {
		verifC20Step(f, st, v, string(rune('0'+i)))
		verifC20Invariant(f, st, "after call")
	}
	// the frame still encodes and round-trips (codec with a compressor, as the flag may be set)
	nd.CompressPolicy(2)
	codec := NewRawCodecWithCompression(lz4.Compressor{})
	buf := &bytes.Buffer{}
	err := codec.EncodeFrame(f, buf)
	nd.Assert(err == nil, "frame encodes after the mutator sequence")
	if err != nil {
		return
	}
	nd.Assert(int(f.Header.BodyLength) == buf.Len()-v.FrameHeaderLengthInBytes(), "declared body length equals emitted bytes after the mutator sequence")
	g, err := codec.DecodeFrame(buf)
	nd.Assert(err == nil, "frame decodes after the mutator sequence")
	if err == nil {
		verifEq_PFrame("frame", f, g)
		nd.Assert(buf.Len() == 0, "exact consumption")
	}
}

func verifC20Depth() int {
	if verifThorough {
		return 3
	}
	return 2
}

func VerifC20_History_Startup_v2() { verifC20History(0, primitive.ProtocolVersion2, verifC20Depth()) }
func VerifC20_History_Startup_v3() { verifC20History(0, primitive.ProtocolVersion3, verifC20Depth()) }
func VerifC20_History_Startup_v4() { verifC20History(0, primitive.ProtocolVersion4, verifC20Depth()) }
func VerifC20_History_Startup_v5() { verifC20History(0, primitive.ProtocolVersion5, verifC20Depth()) }
func VerifC20_History_Startup_dse1() { verifC20History(0, primitive.ProtocolVersionDse1, verifC20Depth()) }
func VerifC20_History_Startup_dse2() { verifC20History(0, primitive.ProtocolVersionDse2, verifC20Depth()) }
func VerifC20_History_Options_v2() { verifC20History(1, primitive.ProtocolVersion2, verifC20Depth()) }
func VerifC20_History_Options_v3() { verifC20History(1, primitive.ProtocolVersion3, verifC20Depth()) }
func VerifC20_History_Options_v4() { verifC20History(1, primitive.ProtocolVersion4, verifC20Depth()) }
func VerifC20_History_Options_v5() { verifC20History(1, primitive.ProtocolVersion5, verifC20Depth()) }
func VerifC20_History_Options_dse1() { verifC20History(1, primitive.ProtocolVersionDse1, verifC20Depth()) }
func VerifC20_History_Options_dse2() { verifC20History(1, primitive.ProtocolVersionDse2, verifC20Depth()) }
func VerifC20_History_Ready_v2() { verifC20History(2, primitive.ProtocolVersion2, verifC20Depth()) }
func VerifC20_History_Ready_v3() { verifC20History(2, primitive.ProtocolVersion3, verifC20Depth()) }
func VerifC20_History_Ready_v4() { verifC20History(2, primitive.ProtocolVersion4, verifC20Depth()) }
func VerifC20_History_Ready_v5() { verifC20History(2, primitive.ProtocolVersion5, verifC20Depth()) }
func VerifC20_History_Ready_dse1() { verifC20History(2, primitive.ProtocolVersionDse1, verifC20Depth()) }
func VerifC20_History_Ready_dse2() { verifC20History(2, primitive.ProtocolVersionDse2, verifC20Depth()) }
func VerifC20_History_Query_v2() { verifC20History(3, primitive.ProtocolVersion2, verifC20Depth()) }
func VerifC20_History_Query_v3() { verifC20History(3, primitive.ProtocolVersion3, verifC20Depth()) }
func VerifC20_History_Query_v4() { verifC20History(3, primitive.ProtocolVersion4, verifC20Depth()) }
func VerifC20_History_Query_v5() { verifC20History(3, primitive.ProtocolVersion5, verifC20Depth()) }
func VerifC20_History_Query_dse1() { verifC20History(3, primitive.ProtocolVersionDse1, verifC20Depth()) }
func VerifC20_History_Query_dse2() { verifC20History(3, primitive.ProtocolVersionDse2, verifC20Depth()) }
func VerifC20_History_Void_v2() { verifC20History(4, primitive.ProtocolVersion2, verifC20Depth()) }
func VerifC20_History_Void_v3() { verifC20History(4, primitive.ProtocolVersion3, verifC20Depth()) }
func VerifC20_History_Void_v4() { verifC20History(4, primitive.ProtocolVersion4, verifC20Depth()) }
func VerifC20_History_Void_v5() { verifC20History(4, primitive.ProtocolVersion5, verifC20Depth()) }
func VerifC20_History_Void_dse1() { verifC20History(4, primitive.ProtocolVersionDse1, verifC20Depth()) }
func VerifC20_History_Void_dse2() { verifC20History(4, primitive.ProtocolVersionDse2, verifC20Depth()) }
func VerifC20_History_Error_v2() { verifC20History(5, primitive.ProtocolVersion2, verifC20Depth()) }
func VerifC20_History_Error_v3() { verifC20History(5, primitive.ProtocolVersion3, verifC20Depth()) }
func VerifC20_History_Error_v4() { verifC20History(5, primitive.ProtocolVersion4, verifC20Depth()) }
func VerifC20_History_Error_v5() { verifC20History(5, primitive.ProtocolVersion5, verifC20Depth()) }
func VerifC20_History_Error_dse1() { verifC20History(5, primitive.ProtocolVersionDse1, verifC20Depth()) }
func VerifC20_History_Error_dse2() { verifC20History(5, primitive.ProtocolVersionDse2, verifC20Depth()) }

// ---- each mutator's own post-condition from an ARBITRARY pre-state (flags symbolic, parts present or not, the
// argument possibly the very object the body already holds). The doc comments promise "adjusting the header flags
// accordingly": after the call the governed flag reflects the argument whatever the frame looked like before
// (e.g. after a decoder, a struct literal, or a mutator of the other direction left flag and body out of step),
// no other flag bit and no other body part changes.

func verifC20OneStep(kind int, v primitive.ProtocolVersion) {
	msg := verifC20Message(kind)
	f := NewFrame(v, 1, msg)
	pre := primitive.HeaderFlag(nd.Uint8("pre flags"))
	f.Header.Flags = pre
	var idA primitive.UUID
	copy(idA[:], nd.Bytes("pre id", 16))
	if nd.Choice("pre tracing id", 2) == 1 {
		f.Body.TracingId = &idA
	}
	payA := map[string][]byte{"k": nd.Bytes("pre pv", 1)}
	switch nd.Choice("pre payload", 3) {
	case 1:
		f.Body.CustomPayload = map[string][]byte{}
	case 2:
		f.Body.CustomPayload = payA
	}
	warnA := []string{nd.String("pre w", 1)}
	switch nd.Choice("pre warnings", 3) {
	case 1:
		f.Body.Warnings = []string{}
	case 2:
		f.Body.Warnings = warnA
	}
	preId, prePay, preWarn := f.Body.TracingId, f.Body.CustomPayload, f.Body.Warnings
	governed := primitive.HeaderFlag(0)
	want := false
	switch nd.Choice("call", 14) {
	case 0:
		f.SetCompress(true)
		governed, want = primitive.HeaderFlagCompressed, kind >= 3
	case 1:
		f.SetCompress(false)
		governed, want = primitive.HeaderFlagCompressed, false
	case 2:
		f.SetTracingId(nil)
		governed, want = primitive.HeaderFlagTracing, false
		nd.Assert(f.Body.TracingId == nil, "SetTracingId(nil) removes the tracing id")
		preId = nil
	case 3:
		var id primitive.UUID
		copy(id[:], nd.Bytes("id", 16))
		f.SetTracingId(&id)
		governed, want = primitive.HeaderFlagTracing, true
		nd.Assert(f.Body.TracingId == &id, "SetTracingId stores the id")
		preId = &id
	case 4: // the id the body already holds
		f.SetTracingId(&idA)
		governed, want = primitive.HeaderFlagTracing, true
		nd.Assert(f.Body.TracingId == &idA, "SetTracingId stores the id (same object as before)")
		preId = &idA
	case 5:
		f.RequestTracingId(true)
		governed, want = primitive.HeaderFlagTracing, true
	case 6:
		f.RequestTracingId(false)
		governed, want = primitive.HeaderFlagTracing, false
	case 7:
		f.SetCustomPayload(nil)
		governed, want = primitive.HeaderFlagCustomPayload, false
		nd.Assert(len(f.Body.CustomPayload) == 0, "SetCustomPayload(nil) removes the payload")
		prePay = nil
	case 8:
		f.SetCustomPayload(map[string][]byte{})
		governed, want = primitive.HeaderFlagCustomPayload, false
		nd.Assert(len(f.Body.CustomPayload) == 0, "SetCustomPayload(empty) leaves no payload")
		prePay = nil
	case 9:
		p := map[string][]byte{"n": nd.Bytes("pv", 1)}
		f.SetCustomPayload(p)
		governed, want = primitive.HeaderFlagCustomPayload, true
		nd.Assert(len(f.Body.CustomPayload) == 1 && f.Body.CustomPayload["n"] != nil, "SetCustomPayload stores the payload")
		prePay = f.Body.CustomPayload
	case 10: // the map the body may already hold
		f.SetCustomPayload(payA)
		governed, want = primitive.HeaderFlagCustomPayload, true
		nd.Assert(len(f.Body.CustomPayload) == 1 && f.Body.CustomPayload["k"] != nil, "SetCustomPayload stores the payload (same map as before)")
		prePay = f.Body.CustomPayload
	case 11:
		f.SetWarnings(nil)
		governed, want = primitive.HeaderFlagWarning, false
		nd.Assert(len(f.Body.Warnings) == 0, "SetWarnings(nil) removes the warnings")
		preWarn = nil
	case 12:
		f.SetWarnings([]string{nd.String("w", 1)})
		governed, want = primitive.HeaderFlagWarning, true
		nd.Assert(len(f.Body.Warnings) == 1, "SetWarnings stores the warnings")
		preWarn = f.Body.Warnings
	case 13: // the slice the body may already hold
		f.SetWarnings(warnA)
		governed, want = primitive.HeaderFlagWarning, true
		nd.Assert(len(f.Body.Warnings) == 1, "SetWarnings stores the warnings (same slice as before)")
		preWarn = f.Body.Warnings
	}
	post := f.Header.Flags
	nd.Assert(post.Contains(governed) == want, "after a mutator call its flag reflects the argument, whatever the frame looked like before")
	nd.Assert(post&^governed == pre&^governed, "a mutator changes no flag but its own")
	nd.Assert(f.Body.TracingId == preId, "tracing id untouched by other mutators")
	nd.Assert(len(f.Body.CustomPayload) == len(prePay), "custom payload untouched by other mutators")
	nd.Assert(len(f.Body.Warnings) == len(preWarn), "warnings untouched by other mutators")
	nd.Assert(f.Body.Message == msg, "the message is untouched by every mutator")
}

func VerifC20_OneStep_Startup_v4() { verifC20OneStep(0, primitive.ProtocolVersion4) }
func VerifC20_OneStep_Options_v5() { verifC20OneStep(1, primitive.ProtocolVersion5) }
func VerifC20_OneStep_Ready_dse2() { verifC20OneStep(2, primitive.ProtocolVersionDse2) }
func VerifC20_OneStep_Query_v2()   { verifC20OneStep(3, primitive.ProtocolVersion2) }
func VerifC20_OneStep_Query_v4()   { verifC20OneStep(3, primitive.ProtocolVersion4) }
func VerifC20_OneStep_Void_v3()    { verifC20OneStep(4, primitive.ProtocolVersion3) }
func VerifC20_OneStep_Void_v5()    { verifC20OneStep(4, primitive.ProtocolVersion5) }
func VerifC20_OneStep_Error_dse1() { verifC20OneStep(5, primitive.ProtocolVersionDse1) }

// ---- histories over ALL mutators regardless of direction ("any sequence of the frame mutators"): the tracing flag
// follows the last tracing-related call (SetTracingId(x): x != nil; RequestTracingId(b): b), the other flags their
// parts; when the final state is legal for the frame's direction the frame still encodes and round-trips.

func verifC20Mixed(kind int, v primitive.ProtocolVersion, depth int) {
	msg := verifC20Message(kind)
	f := NewFrame(v, 1, msg)
	wantTracing := false
	var idA primitive.UUID
	copy(idA[:], nd.Bytes("id", 16))
	payA := map[string][]byte{"k": nd.Bytes("pv", 1)}
	warnA := []string{nd.String("w", 1)}
	for i := 0; i < depth; i++ {
		n := 6
		if v >= primitive.ProtocolVersion4 {
			n = 10
		}
		switch nd.Choice("call"+string(rune('0'+i)), n) {
		case 0:
			f.SetCompress(true)
		case 1:
			f.SetCompress(false)
		case 2:
			f.SetTracingId(nil)
			wantTracing = false
		case 3:
			f.SetTracingId(&idA)
			wantTracing = true
		case 4:
			f.RequestTracingId(true)
			wantTracing = true
		case 5:
			f.RequestTracingId(false)
			wantTracing = false
		case 6:
			f.SetCustomPayload(nil)
		case 7:
			f.SetCustomPayload(payA)
		case 8:
			f.SetWarnings(nil)
		case 9:
			f.SetWarnings(warnA)
		}
		fl := f.Header.Flags
		nd.Assert(fl.Contains(primitive.HeaderFlagTracing) == wantTracing, "the tracing flag follows the last tracing-related mutator call")
		nd.Assert(fl.Contains(primitive.HeaderFlagCustomPayload) == (len(f.Body.CustomPayload) > 0), "mixed: custom payload flag <=> payload present")
		nd.Assert(fl.Contains(primitive.HeaderFlagWarning) == (len(f.Body.Warnings) > 0), "mixed: warning flag <=> warnings present")
		if fl.Contains(primitive.HeaderFlagCompressed) {
			nd.Assert(kind >= 3, "mixed: STARTUP, OPTIONS and READY are never flagged compressed")
		}
	}
	legal := true
	if f.Header.IsResponse {
		legal = f.Header.Flags.Contains(primitive.HeaderFlagTracing) == (f.Body.TracingId != nil)
	} else {
		legal = f.Body.TracingId == nil && len(f.Body.Warnings) == 0
	}
	if !legal {
		return
	}
	nd.CompressPolicy(2)
	codec := NewRawCodecWithCompression(lz4.Compressor{})
	buf := &bytes.Buffer{}
	err := codec.EncodeFrame(f, buf)
	nd.Assert(err == nil, "frame encodes after a mixed mutator sequence")
	if err != nil {
		return
	}
	nd.Assert(int(f.Header.BodyLength) == buf.Len()-v.FrameHeaderLengthInBytes(), "declared body length equals emitted bytes after a mixed mutator sequence")
	g, err := codec.DecodeFrame(buf)
	nd.Assert(err == nil, "frame decodes after a mixed mutator sequence")
	if err == nil {
		verifEq_PFrame("frame", f, g)
	}
}

func verifC20MixedDepth() int {
	if verifThorough {
		return 4
	}
	return 3
}

func VerifC20_Mixed_Query_v3()   { verifC20Mixed(3, primitive.ProtocolVersion3, verifC20MixedDepth()) }
func VerifC20_Mixed_Query_v4()   { verifC20Mixed(3, primitive.ProtocolVersion4, verifC20MixedDepth()) }
func VerifC20_Mixed_Void_v4()    { verifC20Mixed(4, primitive.ProtocolVersion4, verifC20MixedDepth()) }
func VerifC20_Mixed_Void_v5()    { verifC20Mixed(4, primitive.ProtocolVersion5, verifC20MixedDepth()) }
func VerifC20_Mixed_Error_dse2() { verifC20Mixed(5, primitive.ProtocolVersionDse2, verifC20MixedDepth()) }
func VerifC20_Mixed_Startup_v4() { verifC20Mixed(0, primitive.ProtocolVersion4, verifC20MixedDepth()) }
