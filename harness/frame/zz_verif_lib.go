package frame

// Generators of version-valid frames (DESIGN 4.1). Every scalar is an arbitrary nd value; shapes
// (presence of optional parts, lengths, dynamic types) are enumerated by nd choices. A part that the
// version does not define is left at its zero value: that is what "version-valid" means here, it is
// written from the specs and the field comments of the message structs, not from the encoder's checks.

import (
	"net"

	"github.com/datastax/go-cassandra-native-protocol/datatype"
	nd "github.com/datastax/go-cassandra-native-protocol/internal/zzverifnd"
	"github.com/datastax/go-cassandra-native-protocol/message"
	"github.com/datastax/go-cassandra-native-protocol/primitive"
)

// ---- optional-part enumeration ----
// mode 0: none present; 1: all present; 2: only site idx present; 3: all but site idx; 4: independent choice per site
var verifOptMode, verifOptIdx, verifOptCounter int

// verifOptFixed >= 0 pins the shape mode (used when a harness needs a second, non-varying frame)
var verifOptFixed = -1

func verifOptSetup(maxSites int) {
	verifOptCounter = 0
	if verifOptFixed >= 0 {
		verifOptMode, verifOptIdx = verifOptFixed, 99
		return
	}
	if verifThorough {
		verifOptMode = 4
		return
	}
	m := nd.Choice("optmode", 2+2*maxSites)
	switch {
	case m == 0:
		verifOptMode = 0
	case m == 1:
		verifOptMode = 1
	case m < 2+maxSites:
		verifOptMode, verifOptIdx = 2, m-2
	default:
		verifOptMode, verifOptIdx = 3, m-2-maxSites
	}
}

func verifOpt(name string) bool {
	i := verifOptCounter
	verifOptCounter++
	switch verifOptMode {
	case 0:
		return false
	case 1:
		return true
	case 2:
		return i == verifOptIdx
	case 3:
		return i != verifOptIdx
	}
	return nd.Choice("opt:"+name, 2) == 1
}

// verifOptDone prunes shapes whose index exceeds the number of sites actually visited.
func verifOptDone() {
	if verifOptFixed >= 0 {
		return
	}
	if (verifOptMode == 2 || verifOptMode == 3) && verifOptIdx >= verifOptCounter {
		nd.Assume(false)
	}
}

// verifVary: whether value-shape choices (dynamic types, value kinds) are varied on this shape. Quick tier varies
// them only on the all-present shape, to keep the product of choices small; thorough varies them everywhere.
func verifVary() bool { return verifThorough || verifOptMode == 1 }

func verifChoice(name string, n int) int {
	if !verifVary() {
		return 0
	}
	return nd.Choice(name, n)
}

func verifV3(v primitive.ProtocolVersion) bool { return v >= primitive.ProtocolVersion3 }
func verifV4(v primitive.ProtocolVersion) bool { return v >= primitive.ProtocolVersion4 }
func verifV5(v primitive.ProtocolVersion) bool { return v == primitive.ProtocolVersion5 }
func verifDse(v primitive.ProtocolVersion) bool {
	return v == primitive.ProtocolVersionDse1 || v == primitive.ProtocolVersionDse2
}
func verifDse2(v primitive.ProtocolVersion) bool   { return v == primitive.ProtocolVersionDse2 }
func verifV5Dse2(v primitive.ProtocolVersion) bool { return verifV5(v) || verifDse2(v) }
func verifV5Dse(v primitive.ProtocolVersion) bool  { return verifV5(v) || verifDse(v) }

// non-empty string (1 symbolic byte; thorough: 1..2)
func verifStrNE(name string) string {
	if verifThorough {
		return nd.String(name, nd.Len(name+".len", 1, 2))
	}
	return nd.String(name, 1)
}

// possibly empty string
func verifStr(name string) string {
	if verifOpt(name) {
		return verifStrNE(name)
	}
	return ""
}

// bytes: nil / present (0..1 bytes)
func verifBytesNE(name string) []byte { return nd.Bytes(name, 1) }

func verifBytesOpt(name string) []byte {
	if verifOpt(name) {
		if verifThorough {
			return nd.Bytes(name, nd.Len(name+".len", 0, 2))
		}
		return nd.Bytes(name, 1)
	}
	return nil
}

func verifConsistency(name string) primitive.ConsistencyLevel {
	c := primitive.ConsistencyLevel(nd.Uint16(name))
	nd.Assume(c <= primitive.ConsistencyLevelLocalOne)
	return c
}

func verifSerialConsistency(name string) *primitive.ConsistencyLevel {
	c := primitive.ConsistencyLevel(nd.Uint16(name))
	if nd.Frozen() {
		c = primitive.ConsistencyLevelSerial
	}
	nd.Assume(nd.In(uint64(c), uint64(primitive.ConsistencyLevelSerial), uint64(primitive.ConsistencyLevelLocalSerial)))
	return &c
}

func verifValue(name string, v primitive.ProtocolVersion) *primitive.Value {
	n := 3
	if verifV4(v) {
		n = 4
	}
	switch verifChoice(name+".kind", n) {
	case 0:
		return primitive.NewValue(nd.Bytes(name, 1))
	case 1:
		return primitive.NewValue([]byte{})
	case 2:
		return primitive.NewNullValue()
	}
	return primitive.NewUnsetValue()
}

func verifValues(name string, v primitive.ProtocolVersion) []*primitive.Value {
	n := 1
	if verifThorough {
		n = nd.Len(name+".n", 1, 2)
	}
	out := make([]*primitive.Value, n)
	for i := range out {
		out[i] = verifValue(name, v)
	}
	return out
}

func verifIP(name string) net.IP {
	if verifChoice(name+".v6", 2) == 1 {
		ip := nd.Bytes(name, 16)
		// a 16-byte value that is a v4-mapped address is the same address as its 4-byte form; exclude the
		// ambiguity by construction: keep the first byte non-zero
		nd.Assume(ip[0] != 0)
		return net.IP(ip)
	}
	return net.IP(nd.Bytes(name, 4))
}

func verifInet(name string) *primitive.Inet {
	return &primitive.Inet{Addr: verifIP(name + ".addr"), Port: nd.Int32(name + ".port")}
}

func verifStrList(name string) []string {
	if !verifOpt(name) {
		return nil
	}
	return []string{verifStrNE(name + "[0]")}
}

var verifPrimitiveTypes = []datatype.DataType{datatype.Ascii, datatype.Bigint, datatype.Blob, datatype.Boolean, datatype.Counter,
	datatype.Decimal, datatype.Double, datatype.Float, datatype.Int, datatype.Timestamp, datatype.Uuid, datatype.Varchar,
	datatype.Varint, datatype.Timeuuid, datatype.Inet, datatype.Date, datatype.Time, datatype.Smallint, datatype.Tinyint, datatype.Duration}

func verifPrimitiveType(name string, v primitive.ProtocolVersion) datatype.DataType {
	n := 15 // up to inet: all versions
	if verifV4(v) {
		n = 19 // date, time, smallint, tinyint
	}
	if verifV5Dse(v) {
		n = 20 // duration
	}
	if !verifThorough {
		// quick: first, last-for-version and one in the middle
		switch verifChoice(name+".prim", 3) {
		case 0:
			return verifPrimitiveTypes[0]
		case 1:
			return verifPrimitiveTypes[n-1]
		}
		return verifPrimitiveTypes[8]
	}
	return verifPrimitiveTypes[nd.Choice(name+".prim", n)]
}

func verifDataType(name string, v primitive.ProtocolVersion, depth int) datatype.DataType {
	n := 1
	if depth > 0 {
		n = 5
		if verifV3(v) {
			n = 7
		}
	}
	switch verifChoice(name+".kind", n) {
	case 1:
		return datatype.NewCustom(verifStrNE(name + ".class"))
	case 2:
		return datatype.NewList(verifDataType(name+".elem", v, depth-1))
	case 3:
		return datatype.NewSet(verifDataType(name+".elem", v, depth-1))
	case 4:
		return datatype.NewMap(verifDataType(name+".key", v, depth-1), verifDataType(name+".val", v, depth-1))
	case 5:
		return datatype.NewTuple(verifDataType(name+".f0", v, depth-1))
	case 6:
		u, _ := datatype.NewUserDefined(verifStrNE(name+".ks"), verifStrNE(name+".name"), []string{verifStrNE(name + ".fn0")}, []datatype.DataType{verifDataType(name+".ft0", v, depth-1)})
		return u
	}
	return verifPrimitiveType(name, v)
}

func verifColumn(name string, v primitive.ProtocolVersion, ks, table string) *message.ColumnMetadata {
	return &message.ColumnMetadata{Keyspace: ks, Table: table, Name: verifStrNE(name + ".name"), Type: verifDataType(name+".type", v, 1)}
}

func verifColumns(name string, v primitive.ProtocolVersion) []*message.ColumnMetadata {
	if !verifThorough {
		return []*message.ColumnMetadata{verifColumn(name+"[0]", v, verifStrNE(name+".ks"), verifStrNE(name+".tbl"))}
	}
	n := nd.Len(name+".n", 1, 2)
	out := make([]*message.ColumnMetadata, n)
	for i := range out {
		out[i] = verifColumn(name+"[]", v, verifStrNE(name+".ks"), verifStrNE(name+".tbl"))
	}
	return out
}

func verifContinuousPagingOptions(name string, v primitive.ProtocolVersion) *message.ContinuousPagingOptions {
	o := &message.ContinuousPagingOptions{MaxPages: nd.Int32(name + ".max"), PagesPerSecond: nd.Int32(name + ".pps")}
	if verifDse2(v) {
		o.NextPages = nd.Int32(name + ".next")
	}
	return o
}

func verifQueryOptions(name string, v primitive.ProtocolVersion) *message.QueryOptions {
	if !verifOpt(name) {
		return nil
	}
	o := &message.QueryOptions{Consistency: verifConsistency(name + ".cl")}
	if verifOpt(name + ".values") {
		if verifV3(v) && verifChoice(name+".named", 2) == 1 {
			o.NamedValues = map[string]*primitive.Value{"k1": verifValue(name+".nv", v)}
		} else {
			o.PositionalValues = verifValues(name+".pv", v)
		}
	}
	o.SkipMetadata = nd.Bool(name + ".skip")
	if verifOpt(name + ".pagesize") {
		o.PageSize = nd.Int32(name + ".pagesize")
		nd.Assume(o.PageSize > 0)
		if verifDse(v) {
			o.PageSizeInBytes = nd.Bool(name + ".inbytes")
		}
	}
	o.PagingState = verifBytesOpt(name + ".pagingstate")
	if verifOpt(name + ".serial") {
		o.SerialConsistency = verifSerialConsistency(name + ".serial")
	}
	if verifV3(v) && verifOpt(name+".ts") {
		ts := nd.Int64(name + ".ts")
		o.DefaultTimestamp = &ts
	}
	if verifV5Dse2(v) {
		o.Keyspace = verifStr(name + ".ks")
	}
	if verifV5(v) && verifOpt(name+".now") {
		now := nd.Int32(name + ".now")
		o.NowInSeconds = &now
	}
	if verifDse(v) && verifOpt(name+".cpo") {
		o.ContinuousPagingOptions = verifContinuousPagingOptions(name+".cpo", v)
	}
	return o
}

func verifRowsMetadata(name string, v primitive.ProtocolVersion, prepared bool) *message.RowsMetadata {
	m := &message.RowsMetadata{}
	if verifOpt(name + ".columns") {
		m.Columns = verifColumns(name+".cols", v)
		m.ColumnCount = int32(len(m.Columns))
	} else if !prepared {
		m.ColumnCount = 1 // NO_METADATA: the count is still sent and rows carry that many cells
	}
	if !prepared {
		m.PagingState = verifBytesOpt(name + ".pagingstate")
		if verifV5Dse2(v) && verifOpt(name+".newid") {
			m.NewResultMetadataId = verifBytesNE(name + ".newid")
		}
		if verifDse(v) && verifOpt(name+".cpage") {
			m.ContinuousPageNumber = nd.Int32(name + ".cpage")
			nd.Assume(m.ContinuousPageNumber > 0)
			m.LastContinuousPage = nd.Bool(name + ".last")
		}
	}
	return m
}

func verifSchemaChange(name string, v primitive.ProtocolVersion) (ct primitive.SchemaChangeType, target primitive.SchemaChangeTarget, ks, obj string, args []string) {
	ct = []primitive.SchemaChangeType{primitive.SchemaChangeTypeCreated, primitive.SchemaChangeTypeUpdated, primitive.SchemaChangeTypeDropped}[verifChoice(name+".ct", 3)]
	n := 2
	if verifV3(v) {
		n = 3
	}
	if verifV4(v) {
		n = 5
	}
	target = []primitive.SchemaChangeTarget{primitive.SchemaChangeTargetKeyspace, primitive.SchemaChangeTargetTable, primitive.SchemaChangeTargetType,
		primitive.SchemaChangeTargetFunction, primitive.SchemaChangeTargetAggregate}[verifChoice(name+".target", n)]
	ks = verifStrNE(name + ".ks")
	switch target {
	case primitive.SchemaChangeTargetKeyspace:
	case primitive.SchemaChangeTargetTable, primitive.SchemaChangeTargetType:
		obj = verifStrNE(name + ".obj")
	default:
		obj = verifStrNE(name + ".obj")
		args = verifStrList(name + ".args")
	}
	return
}

func verifReasons(name string) []*primitive.FailureReason {
	if !verifOpt(name) {
		return nil
	}
	c := primitive.FailureCode(nd.Uint16(name + ".code"))
	nd.Assume(c <= primitive.FailureCodeKeyspaceNotFound)
	return []*primitive.FailureReason{{Endpoint: verifIP(name + ".ep"), Code: c}}
}

var verifWriteTypes = []primitive.WriteType{primitive.WriteTypeSimple, primitive.WriteTypeBatch, primitive.WriteTypeUnloggedBatch, primitive.WriteTypeCounter,
	primitive.WriteTypeBatchLog, primitive.WriteTypeCas, primitive.WriteTypeView, primitive.WriteTypeCdc}

func verifWriteType(name string) primitive.WriteType {
	return verifWriteTypes[verifChoice(name, len(verifWriteTypes))]
}

// set when a generated map has more than one entry: Go's map iteration order is then unspecified and a
// byte-for-byte comparison with the reference encoder is not meaningful (the round trip still is)
var verifMultiEntryMap bool

type verifKind struct {
	name  string
	valid func(v primitive.ProtocolVersion) bool
	gen   func(v primitive.ProtocolVersion) message.Message
}

func verifAll(primitive.ProtocolVersion) bool { return true }

// The kinds table. The generator of harness functions reads the `//verif:kind` lines.
var verifKinds = map[string]verifKind{
	//verif:kind Startup all
	"Startup": {"Startup", verifAll, func(v primitive.ProtocolVersion) message.Message {
		m := &message.Startup{Options: map[string]string{"CQL_VERSION": verifStrNE("cqlv")}}
		if verifOpt("compression") {
			m.Options["COMPRESSION"] = verifStrNE("compression")
			verifMultiEntryMap = true
		}
		return m
	}},
	//verif:kind Options all
	"Options": {"Options", verifAll, func(v primitive.ProtocolVersion) message.Message { return &message.Options{} }},
	//verif:kind Ready all
	"Ready": {"Ready", verifAll, func(v primitive.ProtocolVersion) message.Message { return &message.Ready{} }},
	//verif:kind Authenticate all
	"Authenticate": {"Authenticate", verifAll, func(v primitive.ProtocolVersion) message.Message {
		return &message.Authenticate{Authenticator: verifStrNE("authenticator")}
	}},
	//verif:kind AuthResponse all
	"AuthResponse": {"AuthResponse", verifAll, func(v primitive.ProtocolVersion) message.Message {
		return &message.AuthResponse{Token: verifBytesOpt("token")}
	}},
	//verif:kind AuthChallenge all
	"AuthChallenge": {"AuthChallenge", verifAll, func(v primitive.ProtocolVersion) message.Message {
		return &message.AuthChallenge{Token: verifBytesOpt("token")}
	}},
	//verif:kind AuthSuccess all
	"AuthSuccess": {"AuthSuccess", verifAll, func(v primitive.ProtocolVersion) message.Message {
		return &message.AuthSuccess{Token: verifBytesOpt("token")}
	}},
	//verif:kind Supported all
	"Supported": {"Supported", verifAll, func(v primitive.ProtocolVersion) message.Message {
		m := &message.Supported{Options: map[string][]string{}}
		if verifOpt("opt1") {
			m.Options["CQL_VERSION"] = []string{verifStrNE("opt1v")}
		}
		if verifOpt("opt2") {
			verifMultiEntryMap = len(m.Options) > 0
			m.Options["COMPRESSION"] = []string{verifStrNE("opt2v1"), verifStrNE("opt2v2")}
		}
		return m
	}},
	//verif:kind Register all
	"Register": {"Register", verifAll, func(v primitive.ProtocolVersion) message.Message {
		all := []primitive.EventType{primitive.EventTypeTopologyChange, primitive.EventTypeStatusChange, primitive.EventTypeSchemaChange}
		m := &message.Register{EventTypes: []primitive.EventType{all[verifChoice("ev0", 3)]}}
		if verifOpt("ev1") {
			m.EventTypes = append(m.EventTypes, all[verifChoice("ev1", 3)])
		}
		return m
	}},
	//verif:kind Query all
	"Query": {"Query", verifAll, func(v primitive.ProtocolVersion) message.Message {
		return &message.Query{Query: verifStrNE("query"), Options: verifQueryOptions("opts", v)}
	}},
	//verif:kind Prepare all
	"Prepare": {"Prepare", verifAll, func(v primitive.ProtocolVersion) message.Message {
		m := &message.Prepare{Query: verifStrNE("query")}
		if verifV5Dse2(v) {
			m.Keyspace = verifStr("ks")
		}
		return m
	}},
	//verif:kind Execute all
	"Execute": {"Execute", verifAll, func(v primitive.ProtocolVersion) message.Message {
		m := &message.Execute{QueryId: verifBytesNE("id"), Options: verifQueryOptions("opts", v)}
		if verifV5Dse2(v) {
			m.ResultMetadataId = verifBytesNE("rmid")
		}
		return m
	}},
	//verif:kind Batch all
	"Batch": {"Batch", verifAll, func(v primitive.ProtocolVersion) message.Message {
		bt := primitive.BatchType(nd.Uint8("type"))
		nd.Assume(bt <= primitive.BatchTypeCounter)
		m := &message.Batch{Type: bt, Consistency: verifConsistency("cl")}
		if verifOpt("child0") {
			c := &message.BatchChild{}
			if verifChoice("child0.prepared", 2) == 1 {
				c.Id = verifBytesNE("child0.id")
			} else {
				c.Query = verifStrNE("child0.query")
			}
			if verifOpt("child0.values") {
				c.Values = verifValues("child0.values", v)
			}
			m.Children = append(m.Children, c)
		}
		if verifOpt("child1") {
			m.Children = append(m.Children, &message.BatchChild{Id: verifBytesNE("child1.id")})
		}
		if verifV3(v) {
			if verifOpt("serial") {
				m.SerialConsistency = verifSerialConsistency("serial")
			}
			if verifOpt("ts") {
				ts := nd.Int64("ts")
				m.DefaultTimestamp = &ts
			}
		}
		if verifV5Dse2(v) {
			m.Keyspace = verifStr("ks")
		}
		if verifV5(v) && verifOpt("now") {
			now := nd.Int32("now")
			m.NowInSeconds = &now
		}
		return m
	}},
	//verif:kind Revise dse
	"Revise": {"Revise", verifDse, func(v primitive.ProtocolVersion) message.Message {
		m := &message.Revise{RevisionType: primitive.DseRevisionTypeCancelContinuousPaging, TargetStreamId: nd.Int32("target")}
		if verifDse2(v) && verifChoice("more", 2) == 1 {
			m.RevisionType = primitive.DseRevisionTypeMoreContinuousPages
			m.NextPages = nd.Int32("next")
		}
		return m
	}},
	// ---- errors ----
	//verif:kind ServerError all
	"ServerError": {"ServerError", verifAll, func(v primitive.ProtocolVersion) message.Message {
		return &message.ServerError{ErrorMessage: verifStr("msg")}
	}},
	//verif:kind ProtocolError all
	"ProtocolError": {"ProtocolError", verifAll, func(v primitive.ProtocolVersion) message.Message {
		return &message.ProtocolError{ErrorMessage: verifStr("msg")}
	}},
	//verif:kind AuthenticationError all
	"AuthenticationError": {"AuthenticationError", verifAll, func(v primitive.ProtocolVersion) message.Message {
		return &message.AuthenticationError{ErrorMessage: verifStr("msg")}
	}},
	//verif:kind Overloaded all
	"Overloaded": {"Overloaded", verifAll, func(v primitive.ProtocolVersion) message.Message {
		return &message.Overloaded{ErrorMessage: verifStr("msg")}
	}},
	//verif:kind IsBootstrapping all
	"IsBootstrapping": {"IsBootstrapping", verifAll, func(v primitive.ProtocolVersion) message.Message {
		return &message.IsBootstrapping{ErrorMessage: verifStr("msg")}
	}},
	//verif:kind TruncateError all
	"TruncateError": {"TruncateError", verifAll, func(v primitive.ProtocolVersion) message.Message {
		return &message.TruncateError{ErrorMessage: verifStr("msg")}
	}},
	//verif:kind SyntaxError all
	"SyntaxError": {"SyntaxError", verifAll, func(v primitive.ProtocolVersion) message.Message {
		return &message.SyntaxError{ErrorMessage: verifStr("msg")}
	}},
	//verif:kind Unauthorized all
	"Unauthorized": {"Unauthorized", verifAll, func(v primitive.ProtocolVersion) message.Message {
		return &message.Unauthorized{ErrorMessage: verifStr("msg")}
	}},
	//verif:kind Invalid all
	"Invalid": {"Invalid", verifAll, func(v primitive.ProtocolVersion) message.Message {
		return &message.Invalid{ErrorMessage: verifStr("msg")}
	}},
	//verif:kind ConfigError all
	"ConfigError": {"ConfigError", verifAll, func(v primitive.ProtocolVersion) message.Message {
		return &message.ConfigError{ErrorMessage: verifStr("msg")}
	}},
	//verif:kind Unavailable all
	"Unavailable": {"Unavailable", verifAll, func(v primitive.ProtocolVersion) message.Message {
		return &message.Unavailable{ErrorMessage: verifStr("msg"), Consistency: verifConsistency("cl"), Required: nd.Int32("required"), Alive: nd.Int32("alive")}
	}},
	//verif:kind ReadTimeout all
	"ReadTimeout": {"ReadTimeout", verifAll, func(v primitive.ProtocolVersion) message.Message {
		return &message.ReadTimeout{ErrorMessage: verifStr("msg"), Consistency: verifConsistency("cl"), Received: nd.Int32("received"), BlockFor: nd.Int32("blockfor"), DataPresent: nd.Bool("present")}
	}},
	//verif:kind WriteTimeout all
	"WriteTimeout": {"WriteTimeout", verifAll, func(v primitive.ProtocolVersion) message.Message {
		m := &message.WriteTimeout{ErrorMessage: verifStr("msg"), Consistency: verifConsistency("cl"), Received: nd.Int32("received"), BlockFor: nd.Int32("blockfor"), WriteType: verifWriteType("wt")}
		if verifV5(v) && m.WriteType == primitive.WriteTypeCas {
			m.Contentions = nd.Uint16("contentions")
		}
		return m
	}},
	//verif:kind ReadFailure v4
	"ReadFailure": {"ReadFailure", verifV4, func(v primitive.ProtocolVersion) message.Message {
		m := &message.ReadFailure{ErrorMessage: verifStr("msg"), Consistency: verifConsistency("cl"), Received: nd.Int32("received"), BlockFor: nd.Int32("blockfor"), DataPresent: nd.Bool("present")}
		if verifV5Dse(v) {
			m.FailureReasons = verifReasons("reasons")
		} else {
			m.NumFailures = nd.Int32("numfailures")
		}
		return m
	}},
	//verif:kind WriteFailure v4
	"WriteFailure": {"WriteFailure", verifV4, func(v primitive.ProtocolVersion) message.Message {
		m := &message.WriteFailure{ErrorMessage: verifStr("msg"), Consistency: verifConsistency("cl"), Received: nd.Int32("received"), BlockFor: nd.Int32("blockfor"), WriteType: verifWriteType("wt")}
		if verifV5Dse(v) {
			m.FailureReasons = verifReasons("reasons")
		} else {
			m.NumFailures = nd.Int32("numfailures")
		}
		return m
	}},
	//verif:kind FunctionFailure v4
	"FunctionFailure": {"FunctionFailure", verifV4, func(v primitive.ProtocolVersion) message.Message {
		return &message.FunctionFailure{ErrorMessage: verifStr("msg"), Keyspace: verifStrNE("ks"), Function: verifStrNE("fn"), Arguments: verifStrList("args")}
	}},
	//verif:kind AlreadyExists all
	"AlreadyExists": {"AlreadyExists", verifAll, func(v primitive.ProtocolVersion) message.Message {
		return &message.AlreadyExists{ErrorMessage: verifStr("msg"), Keyspace: verifStrNE("ks"), Table: verifStr("table")}
	}},
	//verif:kind Unprepared all
	"Unprepared": {"Unprepared", verifAll, func(v primitive.ProtocolVersion) message.Message {
		return &message.Unprepared{ErrorMessage: verifStr("msg"), Id: verifBytesNE("id")}
	}},
	// ---- events ----
	//verif:kind SchemaChangeEvent all
	"SchemaChangeEvent": {"SchemaChangeEvent", verifAll, func(v primitive.ProtocolVersion) message.Message {
		ct, target, ks, obj, args := verifSchemaChange("sc", v)
		return &message.SchemaChangeEvent{ChangeType: ct, Target: target, Keyspace: ks, Object: obj, Arguments: args}
	}},
	//verif:kind StatusChangeEvent all
	"StatusChangeEvent": {"StatusChangeEvent", verifAll, func(v primitive.ProtocolVersion) message.Message {
		ct := []primitive.StatusChangeType{primitive.StatusChangeTypeUp, primitive.StatusChangeTypeDown}[verifChoice("ct", 2)]
		return &message.StatusChangeEvent{ChangeType: ct, Address: verifInet("addr")}
	}},
	//verif:kind TopologyChangeEvent all
	"TopologyChangeEvent": {"TopologyChangeEvent", verifAll, func(v primitive.ProtocolVersion) message.Message {
		ct := []primitive.TopologyChangeType{primitive.TopologyChangeTypeNewNode, primitive.TopologyChangeTypeRemovedNode}[verifChoice("ct", 2)]
		return &message.TopologyChangeEvent{ChangeType: ct, Address: verifInet("addr")}
	}},
	// ---- results ----
	//verif:kind VoidResult all
	"VoidResult": {"VoidResult", verifAll, func(v primitive.ProtocolVersion) message.Message { return &message.VoidResult{} }},
	//verif:kind SetKeyspaceResult all
	"SetKeyspaceResult": {"SetKeyspaceResult", verifAll, func(v primitive.ProtocolVersion) message.Message {
		return &message.SetKeyspaceResult{Keyspace: verifStrNE("ks")}
	}},
	//verif:kind SchemaChangeResult all
	"SchemaChangeResult": {"SchemaChangeResult", verifAll, func(v primitive.ProtocolVersion) message.Message {
		ct, target, ks, obj, args := verifSchemaChange("sc", v)
		return &message.SchemaChangeResult{ChangeType: ct, Target: target, Keyspace: ks, Object: obj, Arguments: args}
	}},
	//verif:kind PreparedResult all
	"PreparedResult": {"PreparedResult", verifAll, func(v primitive.ProtocolVersion) message.Message {
		m := &message.PreparedResult{PreparedQueryId: verifBytesNE("id")}
		if verifV5Dse2(v) {
			m.ResultMetadataId = verifBytesNE("rmid")
		}
		if verifOpt("vars") {
			m.VariablesMetadata = &message.VariablesMetadata{}
			if verifOpt("vars.cols") {
				m.VariablesMetadata.Columns = verifColumns("vars.cols", v)
				if verifV4(v) && verifOpt("vars.pk") {
					m.VariablesMetadata.PkIndices = []uint16{nd.Uint16("vars.pk0")}
				}
			}
		}
		if verifOpt("result") {
			m.ResultMetadata = verifRowsMetadata("result", v, true)
		}
		return m
	}},
	//verif:kind RowsResult all
	"RowsResult": {"RowsResult", verifAll, func(v primitive.ProtocolVersion) message.Message {
		m := &message.RowsResult{Metadata: verifRowsMetadata("meta", v, false)}
		if verifOpt("rows") {
			n := 1
			if verifThorough {
				n = nd.Len("rows.n", 1, 2)
			}
			for i := 0; i < n; i++ {
				row := make(message.Row, m.Metadata.ColumnCount)
				for j := range row {
					switch verifChoice("cell.kind", 3) {
					case 0:
						row[j] = nd.Bytes("cell", 1)
					case 1:
						row[j] = []byte{}
					}
				}
				m.Data = append(m.Data, row)
			}
		}
		return m
	}},
	// two columns whose keyspace and table names are independent arbitrary strings: the global-table-spec decision
	// (one shared keyspace/table, or one pair per column) depends on how they compare
	//verif:kind RowsTwoColumns all
	"RowsTwoColumns": {"RowsTwoColumns", verifAll, func(v primitive.ProtocolVersion) message.Message {
		cols := []*message.ColumnMetadata{
			{Keyspace: verifStrNE("c0.ks"), Table: verifStrNE("c0.tbl"), Name: verifStrNE("c0.name"), Type: datatype.Int},
			{Keyspace: verifStrNE("c1.ks"), Table: verifStrNE("c1.tbl"), Name: verifStrNE("c1.name"), Type: datatype.Varchar},
		}
		return &message.RowsResult{Metadata: &message.RowsMetadata{ColumnCount: 2, Columns: cols}}
	}},
}

// verifFrame builds an arbitrary version-valid frame around an arbitrary instance of the given kind.
func verifFrame(kind string, v primitive.ProtocolVersion, compress bool) *Frame {
	verifOptSetup(14)
	msg := verifKinds[kind].gen(v)
	f := &Frame{Header: &Header{Version: v, IsResponse: msg.IsResponse(), OpCode: msg.GetOpCode()}, Body: &Body{Message: msg}}
	f.Header.StreamId = nd.Int16("streamid")
	if !verifV3(v) {
		nd.Assume(f.Header.StreamId >= -128)
		nd.Assume(f.Header.StreamId <= 127)
	}
	// unused flag bits (above 0x10) are arbitrary; USE_BETA (0x10) is never set: no supported version is beta
	flags := primitive.HeaderFlag(nd.Uint8("flags.unused") & 0xE0)
	if f.Header.IsResponse {
		if verifOpt("tracingid") {
			id := primitive.UUID{}
			copy(id[:], nd.Bytes("tracingid", 16))
			f.Body.TracingId = &id
			flags |= primitive.HeaderFlagTracing
		}
		if verifV4(v) && verifOpt("warnings") {
			f.Body.Warnings = []string{verifStrNE("warning0")}
			flags |= primitive.HeaderFlagWarning
		}
	} else if nd.Bool("tracing.requested") {
		flags |= primitive.HeaderFlagTracing
	}
	if verifV4(v) && verifOpt("payload") {
		f.Body.CustomPayload = map[string][]byte{"p1": verifBytesOpt("payload.p1")}
		flags |= primitive.HeaderFlagCustomPayload
	}
	if compress && isCompressible(msg.GetOpCode()) {
		flags |= primitive.HeaderFlagCompressed
	}
	f.Header.Flags = flags
	verifOptDone()
	return f
}
