package frame

import (
	"bytes"

	"github.com/datastax/go-cassandra-native-protocol/compression/lz4"
	"github.com/datastax/go-cassandra-native-protocol/compression/snappy"
	nd "github.com/datastax/go-cassandra-native-protocol/internal/zzverifnd"
	"github.com/datastax/go-cassandra-native-protocol/primitive"
)

// C04: decoders return a value or an error on every input; a path that ends in a Go panic is a violation
// (confirmed by native replay). Input family 1: fully symbolic body bytes for a fixed (version, opcode).

// body length per opcode: list-heavy opcodes (many ways to split few bytes into strings) get shorter inputs
func verifC04BodyLen(op primitive.OpCode) int {
	short := op == primitive.OpCodeBatch || op == primitive.OpCodeRegister || op == primitive.OpCodeSupported || op == primitive.OpCodeStartup
	switch {
	case verifThorough && short:
		return 10
	case verifThorough:
		return 14
	case short:
		return 6
	}
	return 8
}

func verifNoPanicBody(v primitive.ProtocolVersion, op primitive.OpCode) {
	n := verifC04BodyLen(op)
	nd.AllocBound(n + 2)
	b := nd.Bytes("body", n)
	h := &Header{Version: v, OpCode: op, IsResponse: op.IsResponse(), BodyLength: int32(n)}
	body, err := NewRawCodec().DecodeBody(h, bytes.NewReader(b))
	nd.Assert(err != nil || body != nil, "DecodeBody returns a body or an error")
}

// whole frames: header bytes symbolic too (version fixed per harness); one entry point per harness, because
// consecutive parses of the same symbolic input multiply the paths
func verifNoPanicFrame(v primitive.ProtocolVersion, n int, entry int) {
	nd.AllocBound(n + 2)
	b := nd.Bytes("in", n)
	b[0] = byte(v) | (b[0] & 0x80)
	c := NewRawCodec()
	switch entry {
	case 0:
		f, err := c.DecodeFrame(bytes.NewReader(b))
		nd.Assert(err != nil || f != nil, "DecodeFrame returns a frame or an error")
	case 1:
		r, err := c.DecodeRawFrame(bytes.NewReader(b))
		nd.Assert(err != nil || r != nil, "DecodeRawFrame returns a frame or an error")
		if err == nil {
			g, err := c.ConvertFromRawFrame(r)
			nd.Assert(err != nil || g != nil, "ConvertFromRawFrame returns a frame or an error")
		}
	case 2:
		h, err := c.DecodeHeader(bytes.NewReader(b))
		nd.Assert(err != nil || h != nil, "DecodeHeader returns a header or an error")
		if err == nil {
			rest := b[v.FrameHeaderLengthInBytes():]
			c.DiscardBody(h, bytes.NewReader(rest))
			c.DiscardBody(h, bytes.NewBuffer(append([]byte{}, rest...)))
			c.DecodeRawBody(h, bytes.NewReader(rest))
		}
	}
}

func verifFrameLen() int {
	if verifThorough {
		return 9 + 6
	}
	return 9 + 3
}

func VerifC04_NoPanic_Frame_v2()      { verifNoPanicFrame(primitive.ProtocolVersion2, verifFrameLen()-1, 0) }
func VerifC04_NoPanic_Frame_v4()      { verifNoPanicFrame(primitive.ProtocolVersion4, verifFrameLen(), 0) }
func VerifC04_NoPanic_Frame_v5()      { verifNoPanicFrame(primitive.ProtocolVersion5, verifFrameLen(), 0) }
func VerifC04_NoPanic_Frame_dse2()    { verifNoPanicFrame(primitive.ProtocolVersionDse2, verifFrameLen(), 0) }
func VerifC04_NoPanic_RawFrame_v4()   { verifNoPanicFrame(primitive.ProtocolVersion4, verifFrameLen(), 1) }
func VerifC04_NoPanic_RawFrame_dse2() { verifNoPanicFrame(primitive.ProtocolVersionDse2, verifFrameLen(), 1) }
func VerifC04_NoPanic_HeaderOps_v2()  { verifNoPanicFrame(primitive.ProtocolVersion2, verifFrameLen()-1, 2) }
func VerifC04_NoPanic_HeaderOps_v5()  { verifNoPanicFrame(primitive.ProtocolVersion5, verifFrameLen(), 2) }

// body prefix (tracing id, warnings, custom payload) with symbolic flags
func VerifC04_NoPanic_BodyPrefix() {
	n := 8
	if verifThorough {
		n = 12
	}
	nd.AllocBound(n + 2)
	b := nd.Bytes("body", n)
	h := &Header{Version: primitive.ProtocolVersion4, OpCode: primitive.OpCodeReady, IsResponse: true, BodyLength: int32(n),
		Flags: primitive.HeaderFlag(nd.Uint8("flags")).Remove(primitive.HeaderFlagCompressed)}
	body, err := NewRawCodec().DecodeBody(h, bytes.NewReader(b))
	nd.Assert(err != nil || body != nil, "DecodeBody returns a body or an error")
}

// compressed bodies: the decompressor wrappers on arbitrary bytes (block functions are contract stubs that fail or
// produce arbitrary output, never panic)
func verifNoPanicCompressed(alg int) {
	n := 10
	nd.AllocBound(n + 2)
	b := nd.Bytes("body", n)
	var bc BodyCompressor = lz4.Compressor{}
	if alg == 1 {
		bc = snappy.Compressor{}
	}
	h := &Header{Version: primitive.ProtocolVersion4, OpCode: primitive.OpCodeOptions, Flags: primitive.HeaderFlagCompressed, BodyLength: int32(n)}
	body, err := NewRawCodecWithCompression(bc).DecodeBody(h, bytes.NewReader(b))
	nd.Assert(err != nil || body != nil, "DecodeBody of a compressed body returns a body or an error")
}

// the body length a header declares is wire data too: every 32-bit value (negative ones included) against a short
// source, through each operation that takes a decoded header
func verifNoPanicDeclaredLength(op int) {
	nd.AllocBound(8)
	b := nd.Bytes("body", 6)
	flags := primitive.HeaderFlag(0)
	var c RawCodec = NewRawCodec()
	if op >= 3 {
		flags = primitive.HeaderFlagCompressed
		if op == 3 {
			c = NewRawCodecWithCompression(lz4.Compressor{})
		} else {
			c = NewRawCodecWithCompression(snappy.Compressor{})
		}
	}
	h := &Header{Version: primitive.ProtocolVersion4, OpCode: primitive.OpCodeOptions, Flags: flags, BodyLength: nd.Int32("declared body length")}
	switch op {
	case 0, 3, 4:
		c.DecodeBody(h, bytes.NewReader(b))
	case 1:
		c.DecodeRawBody(h, bytes.NewReader(b))
	case 2:
		c.DiscardBody(h, bytes.NewBuffer(b))
		c.DiscardBody(h, bytes.NewReader(b))
	}
	nd.Assert(true, "returned")
}

func VerifC04_NoPanic_DeclaredLength_DecodeBody()       { verifNoPanicDeclaredLength(0) }
func VerifC04_NoPanic_DeclaredLength_DecodeRawBody()    { verifNoPanicDeclaredLength(1) }
func VerifC04_NoPanic_DeclaredLength_DiscardBody()      { verifNoPanicDeclaredLength(2) }
func VerifC04_NoPanic_DeclaredLength_DecodeBodyLZ4()    { verifNoPanicDeclaredLength(3) }
func VerifC04_NoPanic_DeclaredLength_DecodeBodySnappy() { verifNoPanicDeclaredLength(4) }

func VerifC04_NoPanic_CompressedBody_LZ4()    { verifNoPanicCompressed(0) }
func VerifC04_NoPanic_CompressedBody_Snappy() { verifNoPanicCompressed(1) }

// Input family 2 (field havoc): a valid encoding of every message kind with a window of 4 bytes at every offset
// replaced by arbitrary bytes, then truncated at an arbitrary point.
func verifNoPanicHavoc(kind string, v primitive.ProtocolVersion) {
	verifOptFixed = 3 // every optional part of the message present, no type variation
	verifOptSetup(14)
	nd.Freeze(true) // the base instance is concrete; only the havoc window is arbitrary
	msg := verifKinds[kind].gen(v)
	nd.Freeze(false)
	verifOptFixed = -1
	// no tracing id / warnings / custom payload: the body prefix has its own harness (BodyPrefix)
	f := NewFrame(v, 1, msg)
	c := NewRawCodec()
	buf := &bytes.Buffer{}
	if err := c.EncodeFrame(f, buf); err != nil {
		nd.Assume(false)
	}
	b := append([]byte{}, buf.Bytes()...)
	hl := v.FrameHeaderLengthInBytes()
	nd.AllocBound(len(b) + 2)
	cut := len(b)
	if nd.Choice("truncate instead of havoc", 2) == 1 {
		cut = hl + nd.Choice("cut", len(b)-hl+1)
	} else if len(b)-hl >= 4 {
		pos := hl + nd.Choice("window", len(b)-hl-3)
		w := nd.Bytes("havoc", 4)
		copy(b[pos:], w)
	}
	g, err := c.DecodeFrame(bytes.NewReader(b[:cut]))
	nd.Assert(err != nil || g != nil, "DecodeFrame returns a frame or an error")
}
