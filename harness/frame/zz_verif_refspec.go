package frame

// refspec: an independent, deliberately naive encoder written from specs/native_protocol_v{2..5}.spec and
// specs/dse_protocol_v{1,2}.spec (DESIGN 4.3, Appendix A). It shares no code with the library: everything
// is append() on a byte slice. It only has to be right for version-valid frames.

import (
	"net"

	"github.com/datastax/go-cassandra-native-protocol/datatype"
	"github.com/datastax/go-cassandra-native-protocol/message"
	"github.com/datastax/go-cassandra-native-protocol/primitive"
)

type refV struct {
	n   int  // 2,3,4,5 for OSS; 1,2 for DSE
	dse bool
}

func refVersion(v primitive.ProtocolVersion) refV {
	if v&0x40 != 0 {
		return refV{int(v & 0x3f), true}
	}
	return refV{int(v), false}
}

func (v refV) atLeast(n int) bool { return v.dse || v.n >= n } // DSE v1/v2 are supersets of v4
func (v refV) v5() bool           { return !v.dse && v.n == 5 }
func (v refV) dse2() bool         { return v.dse && v.n == 2 }
func (v refV) v5dse2() bool       { return v.v5() || v.dse2() }
func (v refV) v5dse() bool        { return v.v5() || v.dse }

// ---- notations (section 3) ----

func refByte(b []byte, x uint8) []byte    { return append(b, x) }
func refShort(b []byte, x uint16) []byte  { return append(b, byte(x>>8), byte(x)) }
func refInt(b []byte, x int32) []byte     { return append(b, byte(x>>24), byte(x>>16), byte(x>>8), byte(x)) }
func refLong(b []byte, x int64) []byte {
	return append(b, byte(x>>56), byte(x>>48), byte(x>>40), byte(x>>32), byte(x>>24), byte(x>>16), byte(x>>8), byte(x))
}
func refString(b []byte, s string) []byte     { return append(refShort(b, uint16(len(s))), s...) }
func refLongString(b []byte, s string) []byte { return append(refInt(b, int32(len(s))), s...) }
func refBytes(b []byte, x []byte) []byte {
	if x == nil {
		return refInt(b, -1)
	}
	return append(refInt(b, int32(len(x))), x...)
}
func refShortBytes(b []byte, x []byte) []byte { return append(refShort(b, uint16(len(x))), x...) }
func refStringList(b []byte, l []string) []byte {
	b = refShort(b, uint16(len(l)))
	for _, s := range l {
		b = refString(b, s)
	}
	return b
}
func refValue(b []byte, x *primitive.Value) []byte {
	switch {
	case x.Type == -2:
		return refInt(b, -2)
	case x.Type == -1 || x.Contents == nil:
		return refInt(b, -1)
	}
	return append(refInt(b, int32(len(x.Contents))), x.Contents...)
}
func refInetAddr(b []byte, ip net.IP) []byte {
	if len(ip) == 16 {
		// an IPv4-mapped address (::ffff:a.b.c.d) is the 4-byte address
		acc := byte(0)
		for i := 0; i < 10; i++ {
			acc |= ip[i]
		}
		acc |= ip[10] ^ 0xff
		acc |= ip[11] ^ 0xff
		if acc == 0 {
			ip = ip[12:]
		}
	}
	b = refByte(b, uint8(len(ip)))
	return append(b, ip...)
}
func refInet(b []byte, i *primitive.Inet) []byte { return refInt(refInetAddr(b, i.Addr), i.Port) }

func refConsistency(b []byte, c primitive.ConsistencyLevel) []byte { return refShort(b, uint16(c)) }

// ---- type options (4.2.5.2) ----

func refOption(b []byte, t datatype.DataType, v refV) []byte {
	switch x := t.(type) {
	case *datatype.PrimitiveType:
		return refShort(b, refPrimitiveId(x))
	case *datatype.Custom:
		return refString(refShort(b, 0x0000), x.ClassName)
	case *datatype.List:
		return refOption(refShort(b, 0x0020), x.ElementType, v)
	case *datatype.Map:
		return refOption(refOption(refShort(b, 0x0021), x.KeyType, v), x.ValueType, v)
	case *datatype.Set:
		return refOption(refShort(b, 0x0022), x.ElementType, v)
	case *datatype.UserDefined:
		b = refShort(b, 0x0030)
		b = refString(b, x.Keyspace)
		b = refString(b, x.Name)
		b = refShort(b, uint16(len(x.FieldNames)))
		for i := range x.FieldNames {
			b = refOption(refString(b, x.FieldNames[i]), x.FieldTypes[i], v)
		}
		return b
	case *datatype.Tuple:
		b = refShort(b, 0x0031)
		b = refShort(b, uint16(len(x.FieldTypes)))
		for _, ft := range x.FieldTypes {
			b = refOption(b, ft, v)
		}
		return b
	}
	panic("refspec: unknown data type")
}

// ids from the "Valid option ids" table
func refPrimitiveId(t *datatype.PrimitiveType) uint16 {
	switch t {
	case datatype.Ascii:
		return 0x0001
	case datatype.Bigint:
		return 0x0002
	case datatype.Blob:
		return 0x0003
	case datatype.Boolean:
		return 0x0004
	case datatype.Counter:
		return 0x0005
	case datatype.Decimal:
		return 0x0006
	case datatype.Double:
		return 0x0007
	case datatype.Float:
		return 0x0008
	case datatype.Int:
		return 0x0009
	case datatype.Timestamp:
		return 0x000B
	case datatype.Uuid:
		return 0x000C
	case datatype.Varchar:
		return 0x000D
	case datatype.Varint:
		return 0x000E
	case datatype.Timeuuid:
		return 0x000F
	case datatype.Inet:
		return 0x0010
	case datatype.Date:
		return 0x0011
	case datatype.Time:
		return 0x0012
	case datatype.Smallint:
		return 0x0013
	case datatype.Tinyint:
		return 0x0014
	case datatype.Duration:
		return 0x0015
	}
	panic("refspec: unknown primitive type")
}

// ---- query parameters (4.1.4) ----

func refQueryFlags(b []byte, flags uint32, v refV) []byte {
	if v.v5() || v.dse {
		return refInt(b, int32(flags))
	}
	return refByte(b, uint8(flags))
}

func refQueryParameters(b []byte, o *message.QueryOptions, v refV) []byte {
	if o == nil {
		o = &message.QueryOptions{}
	}
	b = refConsistency(b, o.Consistency)
	var flags uint32
	named := false
	if o.PositionalValues != nil {
		flags |= 0x01
	} else if o.NamedValues != nil {
		flags |= 0x01 | 0x40
		named = true
	}
	if o.SkipMetadata {
		flags |= 0x02
	}
	if o.PageSize > 0 {
		flags |= 0x04
		if o.PageSizeInBytes {
			flags |= 0x40000000
		}
	}
	if o.PagingState != nil {
		flags |= 0x08
	}
	if o.SerialConsistency != nil {
		flags |= 0x10
	}
	if o.DefaultTimestamp != nil {
		flags |= 0x20
	}
	if o.Keyspace != "" {
		flags |= 0x80
	}
	if o.NowInSeconds != nil {
		flags |= 0x100
	}
	if o.ContinuousPagingOptions != nil {
		flags |= 0x80000000
	}
	b = refQueryFlags(b, flags, v)
	if flags&0x01 != 0 {
		if named {
			b = refShort(b, uint16(len(o.NamedValues)))
			for k, val := range o.NamedValues {
				b = refValue(refString(b, k), val)
			}
		} else {
			b = refShort(b, uint16(len(o.PositionalValues)))
			for _, val := range o.PositionalValues {
				b = refValue(b, val)
			}
		}
	}
	if flags&0x04 != 0 {
		b = refInt(b, o.PageSize)
	}
	if flags&0x08 != 0 {
		b = refBytes(b, o.PagingState)
	}
	if flags&0x10 != 0 {
		b = refConsistency(b, *o.SerialConsistency)
	}
	if flags&0x20 != 0 {
		b = refLong(b, *o.DefaultTimestamp)
	}
	if flags&0x80 != 0 {
		b = refString(b, o.Keyspace)
	}
	if flags&0x100 != 0 {
		b = refInt(b, *o.NowInSeconds)
	}
	if flags&0x80000000 != 0 {
		c := o.ContinuousPagingOptions
		b = refInt(refInt(b, c.MaxPages), c.PagesPerSecond)
		if v.dse2() {
			b = refInt(b, c.NextPages)
		}
	}
	return b
}

// ---- result metadata (4.2.5.2, 4.2.5.4) ----

func refSameTable(cols []*message.ColumnMetadata) bool {
	for _, c := range cols[1:] {
		if c.Keyspace != cols[0].Keyspace {
			return false
		}
		if c.Table != cols[0].Table {
			return false
		}
	}
	return true
}

func refColSpecs(b []byte, cols []*message.ColumnMetadata, global bool, v refV) []byte {
	if global {
		b = refString(refString(b, cols[0].Keyspace), cols[0].Table)
	}
	for _, c := range cols {
		if !global {
			b = refString(refString(b, c.Keyspace), c.Table)
		}
		b = refOption(refString(b, c.Name), c.Type, v)
	}
	return b
}

func refRowsMetadata(b []byte, m *message.RowsMetadata, v refV) []byte {
	if m == nil {
		m = &message.RowsMetadata{}
	}
	var flags uint32
	global := false
	if len(m.Columns) == 0 {
		flags |= 0x0004
	} else if refSameTable(m.Columns) {
		flags |= 0x0001
		global = true
	}
	if m.PagingState != nil {
		flags |= 0x0002
	}
	if m.NewResultMetadataId != nil {
		flags |= 0x0008
	}
	if m.ContinuousPageNumber > 0 {
		flags |= 0x40000000
		if m.LastContinuousPage {
			flags |= 0x80000000
		}
	}
	b = refInt(b, int32(flags))
	b = refInt(b, m.ColumnCount)
	if flags&0x0002 != 0 {
		b = refBytes(b, m.PagingState)
	}
	if flags&0x0008 != 0 {
		b = refShortBytes(b, m.NewResultMetadataId)
	}
	if flags&0x40000000 != 0 {
		b = refInt(b, m.ContinuousPageNumber)
	}
	if flags&0x0004 == 0 {
		b = refColSpecs(b, m.Columns, global, v)
	}
	return b
}

func refPreparedMetadata(b []byte, m *message.VariablesMetadata, v refV) []byte {
	if m == nil {
		m = &message.VariablesMetadata{}
	}
	global := len(m.Columns) > 0 && refSameTable(m.Columns)
	var flags int32
	if global {
		flags = 0x0001
	}
	b = refInt(b, flags)
	b = refInt(b, int32(len(m.Columns)))
	if v.atLeast(4) {
		b = refInt(b, int32(len(m.PkIndices)))
		for _, i := range m.PkIndices {
			b = refShort(b, i)
		}
	}
	if len(m.Columns) > 0 {
		b = refColSpecs(b, m.Columns, global, v)
	}
	return b
}

// ---- schema change (4.2.6 / v2 4.2.5.5) ----

func refSchemaChange(b []byte, ct primitive.SchemaChangeType, target primitive.SchemaChangeTarget, ks, obj string, args []string, v refV) []byte {
	b = refString(b, string(ct))
	if !v.atLeast(3) {
		// v2: <change><keyspace><table>, table empty for keyspace changes
		return refString(refString(b, ks), obj)
	}
	b = refString(b, string(target))
	b = refString(b, ks)
	switch target {
	case "KEYSPACE":
	case "TABLE", "TYPE":
		b = refString(b, obj)
	case "FUNCTION", "AGGREGATE":
		b = refStringList(refString(b, obj), args)
	}
	return b
}

func refReasonMap(b []byte, rs []*primitive.FailureReason) []byte {
	b = refInt(b, int32(len(rs)))
	for _, r := range rs {
		b = refShort(refInetAddr(b, r.Endpoint), uint16(r.Code))
	}
	return b
}

// ---- messages (section 4) ----

func refMessage(b []byte, msg message.Message, v refV) []byte {
	switch m := msg.(type) {
	case *message.Startup:
		b = refShort(b, uint16(len(m.Options)))
		for k, val := range m.Options {
			b = refString(refString(b, k), val)
		}
	case *message.Options, *message.Ready:
	case *message.Authenticate:
		b = refString(b, m.Authenticator)
	case *message.AuthResponse:
		b = refBytes(b, m.Token)
	case *message.AuthChallenge:
		b = refBytes(b, m.Token)
	case *message.AuthSuccess:
		b = refBytes(b, m.Token)
	case *message.Supported:
		b = refShort(b, uint16(len(m.Options)))
		for k, val := range m.Options {
			b = refStringList(refString(b, k), val)
		}
	case *message.Register:
		b = refShort(b, uint16(len(m.EventTypes)))
		for _, e := range m.EventTypes {
			b = refString(b, string(e))
		}
	case *message.Query:
		b = refQueryParameters(refLongString(b, m.Query), m.Options, v)
	case *message.Prepare:
		b = refLongString(b, m.Query)
		if v.v5dse2() {
			if m.Keyspace != "" {
				b = refString(refInt(b, 0x01), m.Keyspace)
			} else {
				b = refInt(b, 0)
			}
		}
	case *message.Execute:
		b = refShortBytes(b, m.QueryId)
		if v.v5dse2() {
			b = refShortBytes(b, m.ResultMetadataId)
		}
		b = refQueryParameters(b, m.Options, v)
	case *message.Batch:
		b = refByte(b, uint8(m.Type))
		b = refShort(b, uint16(len(m.Children)))
		for _, c := range m.Children {
			if c.Query != "" {
				b = refLongString(refByte(b, 0), c.Query)
			} else {
				b = refShortBytes(refByte(b, 1), c.Id)
			}
			b = refShort(b, uint16(len(c.Values)))
			for _, val := range c.Values {
				b = refValue(b, val)
			}
		}
		b = refConsistency(b, m.Consistency)
		if v.atLeast(3) {
			var flags uint32
			if m.SerialConsistency != nil {
				flags |= 0x10
			}
			if m.DefaultTimestamp != nil {
				flags |= 0x20
			}
			if m.Keyspace != "" {
				flags |= 0x80
			}
			if m.NowInSeconds != nil {
				flags |= 0x100
			}
			b = refQueryFlags(b, flags, v)
			if flags&0x10 != 0 {
				b = refConsistency(b, *m.SerialConsistency)
			}
			if flags&0x20 != 0 {
				b = refLong(b, *m.DefaultTimestamp)
			}
			if flags&0x80 != 0 {
				b = refString(b, m.Keyspace)
			}
			if flags&0x100 != 0 {
				b = refInt(b, *m.NowInSeconds)
			}
		}
	case *message.Revise:
		b = refInt(refInt(b, int32(m.RevisionType)), m.TargetStreamId)
		if m.RevisionType == 2 {
			b = refInt(b, m.NextPages)
		}
	// ERROR: <code int><message string> + per-code body (section 8 / 9)
	case *message.ServerError:
		b = refString(refInt(b, 0x0000), m.ErrorMessage)
	case *message.ProtocolError:
		b = refString(refInt(b, 0x000A), m.ErrorMessage)
	case *message.AuthenticationError:
		b = refString(refInt(b, 0x0100), m.ErrorMessage)
	case *message.Unavailable:
		b = refString(refInt(b, 0x1000), m.ErrorMessage)
		b = refInt(refInt(refConsistency(b, m.Consistency), m.Required), m.Alive)
	case *message.Overloaded:
		b = refString(refInt(b, 0x1001), m.ErrorMessage)
	case *message.IsBootstrapping:
		b = refString(refInt(b, 0x1002), m.ErrorMessage)
	case *message.TruncateError:
		b = refString(refInt(b, 0x1003), m.ErrorMessage)
	case *message.WriteTimeout:
		b = refString(refInt(b, 0x1100), m.ErrorMessage)
		b = refInt(refInt(refConsistency(b, m.Consistency), m.Received), m.BlockFor)
		b = refString(b, string(m.WriteType))
		if v.v5() && m.WriteType == "CAS" {
			b = refShort(b, m.Contentions)
		}
	case *message.ReadTimeout:
		b = refString(refInt(b, 0x1200), m.ErrorMessage)
		b = refInt(refInt(refConsistency(b, m.Consistency), m.Received), m.BlockFor)
		b = refBool(b, m.DataPresent)
	case *message.ReadFailure:
		b = refString(refInt(b, 0x1300), m.ErrorMessage)
		b = refInt(refInt(refConsistency(b, m.Consistency), m.Received), m.BlockFor)
		if v.v5dse() {
			b = refReasonMap(b, m.FailureReasons)
		} else {
			b = refInt(b, m.NumFailures)
		}
		b = refBool(b, m.DataPresent)
	case *message.FunctionFailure:
		b = refString(refInt(b, 0x1400), m.ErrorMessage)
		b = refStringList(refString(refString(b, m.Keyspace), m.Function), m.Arguments)
	case *message.WriteFailure:
		b = refString(refInt(b, 0x1500), m.ErrorMessage)
		b = refInt(refInt(refConsistency(b, m.Consistency), m.Received), m.BlockFor)
		if v.v5dse() {
			b = refReasonMap(b, m.FailureReasons)
		} else {
			b = refInt(b, m.NumFailures)
		}
		b = refString(b, string(m.WriteType))
	case *message.SyntaxError:
		b = refString(refInt(b, 0x2000), m.ErrorMessage)
	case *message.Unauthorized:
		b = refString(refInt(b, 0x2100), m.ErrorMessage)
	case *message.Invalid:
		b = refString(refInt(b, 0x2200), m.ErrorMessage)
	case *message.ConfigError:
		b = refString(refInt(b, 0x2300), m.ErrorMessage)
	case *message.AlreadyExists:
		b = refString(refInt(b, 0x2400), m.ErrorMessage)
		b = refString(refString(b, m.Keyspace), m.Table)
	case *message.Unprepared:
		b = refString(refInt(b, 0x2500), m.ErrorMessage)
		b = refShortBytes(b, m.Id)
	// EVENT
	case *message.SchemaChangeEvent:
		b = refSchemaChange(refString(b, "SCHEMA_CHANGE"), m.ChangeType, m.Target, m.Keyspace, m.Object, m.Arguments, v)
	case *message.StatusChangeEvent:
		b = refInet(refString(refString(b, "STATUS_CHANGE"), string(m.ChangeType)), m.Address)
	case *message.TopologyChangeEvent:
		b = refInet(refString(refString(b, "TOPOLOGY_CHANGE"), string(m.ChangeType)), m.Address)
	// RESULT
	case *message.VoidResult:
		b = refInt(b, 0x0001)
	case *message.RowsResult:
		b = refRowsMetadata(refInt(b, 0x0002), m.Metadata, v)
		b = refInt(b, int32(len(m.Data)))
		for _, row := range m.Data {
			for _, cell := range row {
				b = refBytes(b, cell)
			}
		}
	case *message.SetKeyspaceResult:
		b = refString(refInt(b, 0x0003), m.Keyspace)
	case *message.PreparedResult:
		b = refShortBytes(refInt(b, 0x0004), m.PreparedQueryId)
		if v.v5dse2() {
			b = refShortBytes(b, m.ResultMetadataId)
		}
		b = refPreparedMetadata(b, m.VariablesMetadata, v)
		b = refRowsMetadata(b, m.ResultMetadata, v)
	case *message.SchemaChangeResult:
		b = refSchemaChange(refInt(b, 0x0005), m.ChangeType, m.Target, m.Keyspace, m.Object, m.Arguments, v)
	default:
		panic("refspec: unknown message")
	}
	return b
}

func refBool(b []byte, x bool) []byte {
	if x {
		return refByte(b, 1)
	}
	return refByte(b, 0)
}

// opcodes: section 2.4.1.4 / DSE 2.4
func refOpcode(msg message.Message) uint8 {
	switch msg.(type) {
	case *message.Startup:
		return 0x01
	case *message.Ready:
		return 0x02
	case *message.Authenticate:
		return 0x03
	case *message.Options:
		return 0x05
	case *message.Supported:
		return 0x06
	case *message.Query:
		return 0x07
	case *message.VoidResult, *message.RowsResult, *message.SetKeyspaceResult, *message.PreparedResult, *message.SchemaChangeResult:
		return 0x08
	case *message.Prepare:
		return 0x09
	case *message.Execute:
		return 0x0A
	case *message.Register:
		return 0x0B
	case *message.SchemaChangeEvent, *message.StatusChangeEvent, *message.TopologyChangeEvent:
		return 0x0C
	case *message.Batch:
		return 0x0D
	case *message.AuthChallenge:
		return 0x0E
	case *message.AuthResponse:
		return 0x0F
	case *message.AuthSuccess:
		return 0x10
	case *message.Revise:
		return 0xFF
	}
	return 0x00 // ERROR
}

func refIsResponse(op uint8) bool {
	switch op {
	case 0x00, 0x02, 0x03, 0x06, 0x08, 0x0C, 0x0E, 0x10:
		return true
	}
	return false
}

// refBody: [tracing id (responses)] [warnings (responses, v4+)] [custom payload (v4+)] message  (2.4.1.2)
func refBody(f *Frame, v refV) []byte {
	var b []byte
	op := refOpcode(f.Body.Message)
	if refIsResponse(op) && f.Header.Flags&0x02 != 0 {
		b = append(b, f.Body.TracingId[:]...)
	}
	if refIsResponse(op) && f.Header.Flags&0x08 != 0 {
		b = refStringList(b, f.Body.Warnings)
	}
	if f.Header.Flags&0x04 != 0 {
		b = refShort(b, uint16(len(f.Body.CustomPayload)))
		for k, val := range f.Body.CustomPayload {
			b = refBytes(refString(b, k), val)
		}
	}
	return refMessage(b, f.Body.Message, v)
}

// refFrame: the whole uncompressed envelope.
func refFrame(f *Frame) []byte {
	v := refVersion(f.Header.Version)
	body := refBody(f, v)
	op := refOpcode(f.Body.Message)
	vb := uint8(f.Header.Version)
	if refIsResponse(op) {
		vb |= 0x80
	}
	b := []byte{vb, uint8(f.Header.Flags)}
	if !v.dse && v.n <= 2 {
		b = refByte(b, uint8(f.Header.StreamId))
	} else {
		b = refShort(b, uint16(f.Header.StreamId))
	}
	b = refByte(b, op)
	b = refInt(b, int32(len(body)))
	return append(b, body...)
}
