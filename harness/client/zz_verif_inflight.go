package client

// C09 / C10: the in-flight request handler, driven through bounded operation histories without sockets.
// The harness lives in package client (overlay), so no export shim is needed.

import (
	"context"
	"time"

	"github.com/datastax/go-cassandra-native-protocol/frame"
	nd "github.com/datastax/go-cassandra-native-protocol/internal/zzverifnd"
	"github.com/datastax/go-cassandra-native-protocol/message"
	"github.com/datastax/go-cassandra-native-protocol/primitive"
)

const verifMaxPending = 2

type verifReq struct {
	req     InFlightRequest
	id      int16
	pending []*frame.Frame // frames delivered and not yet taken from the channel by the harness
	dead    bool           // closed with an error by page overflow while its response is still streaming
	managed bool
}

// response frames are built for DSE v2 or for OSS v4: whether a page is the last one is a property of the message
// (RowsMetadata), not of the version the connection negotiated
func verifResponse(id int16, lastPage bool, paged bool) *frame.Frame {
	var msg message.Message = &message.VoidResult{}
	v := primitive.ProtocolVersionDse2
	if paged {
		msg = &message.RowsResult{Metadata: &message.RowsMetadata{ColumnCount: 1, ContinuousPageNumber: 1, LastContinuousPage: lastPage}}
		if nd.Choice("response version", 2) == 1 {
			v = primitive.ProtocolVersion4
		}
	}
	return frame.NewFrame(v, id, msg)
}

func verifIndexOf(out []*verifReq, id int16) int {
	for i, r := range out {
		if r.id == id {
			return i
		}
	}
	return -1
}

// every outstanding request's channel holds exactly the frames delivered to it, in arrival order
func verifCheckChannels(out []*verifReq, where string) {
	for _, r := range out {
		nd.Assert(len(r.req.Incoming()) == len(r.pending), where+": a request's channel holds exactly the frames delivered for its stream id")
	}
}

// verifTake receives without blocking: when a frame that should be there is missing, the native replay must fail an
// assertion, not hang
func verifTake(ch <-chan *frame.Frame) (f *frame.Frame, ok bool, ready bool) {
	select {
	case f, ok = <-ch:
		return f, ok, true
	default:
		return nil, false, false
	}
}

// verifClosedAndEmpty reports whether a receive returns at once with ok == false
func verifClosedAndEmpty(ch <-chan *frame.Frame) bool {
	select {
	case _, ok := <-ch:
		return !ok
	default:
		return false
	}
}

func verifDrain(r *verifReq, where string) {
	ch := r.req.Incoming()
	for _, want := range r.pending {
		got, ok, ready := verifTake(ch)
		nd.Assert(ready && ok, where+": delivered frame can be received")
		if !ready {
			break
		}
		nd.Assert(got == want, where+": frames are received in arrival order, unaltered")
	}
	r.pending = nil
}

func verifInFlightHistory(n int, depth int, explicit bool) {
	h := newInFlightRequestsHandler("verif", context.Background(), n, verifMaxPending, time.Second)
	var out []*verifReq
	closed := false
	for step := 0; step < depth; step++ {
		op := nd.Choice("op", 5)
		switch op {
		case 0: // send
			id := int16(ManagedStreamId)
			if explicit {
				id = int16(1 + nd.Choice("explicit id", n+1))
			}
			f := frame.NewFrame(primitive.ProtocolVersion4, id, &message.Options{})
			r, err := h.onOutgoingFrameEnqueued(f)
			switch {
			case closed:
				nd.Assert(err != nil, "send after close is refused")
			case len(out) == n:
				nd.Assert(err != nil, "with N unanswered requests a further send is refused with an error")
				nd.Assert(r == nil, "a refused send returns no request")
			case explicit && verifIndexOf(out, id) >= 0:
				nd.Assert(err != nil, "reusing the stream id of an unanswered request is refused")
			default:
				nd.Assert(err == nil, "a send is accepted while fewer than N requests are unanswered")
				if err != nil {
					return
				}
				got := f.Header.StreamId
				nd.Assert(r.StreamId() == got, "the request carries the id written to the frame")
				if !explicit {
					nd.Assert(got >= 1, "assigned stream id is at least 1")
					nd.Assert(int(got) <= n, "assigned stream id is at most N")
				} else {
					nd.Assert(got == id, "a caller-chosen id is kept")
				}
				nd.Assert(verifIndexOf(out, got) < 0, "no other unanswered request carries the same stream id")
				out = append(out, &verifReq{req: r, id: got})
			}
		case 1, 2: // deliver a final response (1) or a non-final page (2) to an outstanding request
			if len(out) == 0 {
				nd.Assume(false)
			}
			i := nd.Choice("which request", len(out))
			r := out[i]
			final := op == 1
			if !final && len(r.pending) >= verifMaxPending-1 {
				// keep within the property's range of 1..MaxPending undelivered pages
				verifDrain(r, "drain")
			}
			g := verifResponse(r.id, final, !final || nd.Choice("final is a last page", 2) == 1)
			err := h.onIncomingFrameReceived(g)
			if closed {
				nd.Assert(err != nil, "delivery after close is refused")
				break
			}
			nd.Assert(err == nil, "a response for an unanswered request is delivered")
			r.pending = append(r.pending, g)
			verifCheckChannels(out, "after delivery")
			if final {
				verifDrain(r, "final response")
				nd.Assert(verifClosedAndEmpty(r.req.Incoming()), "the channel is closed after the final response")
				nd.Assert(r.req.IsDone(), "the request is completed by its final response")
				nd.Assert(r.req.Err() == nil, "a normally completed request carries no error")
				out = append(out[:i:i], out[i+1:]...)
			} else {
				nd.Assert(!r.req.IsDone(), "a non-final page keeps the request open")
			}
		case 3: // response for an unknown stream id
			id := int16(1 + nd.Choice("unknown id", n+1))
			if verifIndexOf(out, id) >= 0 {
				nd.Assume(false)
			}
			err := h.onIncomingFrameReceived(verifResponse(id, true, false))
			nd.Assert(err != nil, "a response for an unknown stream id is reported")
			verifCheckChannels(out, "after unknown response")
		case 4: // close
			h.close()
			closed = true
			for _, r := range out {
				verifDrain(r, "after close")
				nd.Assert(verifClosedAndEmpty(r.req.Incoming()), "close closes the channel of every pending request")
				nd.Assert(r.req.IsDone(), "close completes every pending request")
				nd.Assert(r.req.Err() != nil, "a request completed by close carries an error")
			}
			out = nil
		}
		if !closed && !explicit {
			nd.Assert(len(h.streamIds)+len(out) == n, "ids in the pool plus ids of unanswered requests are exactly N (an answered request's id is assignable again)")
		}
		if !closed {
			nd.Assert(len(h.inFlight) == len(out), "exactly the unanswered requests are registered")
		}
	}
}

// verifInFlightHistory2 extends the histories above:
//   mode 0: managed ids, 1: caller-chosen ids, 2: mixed (every send chooses; only uniqueness, bounds and refusal at N
//   are asserted there - the property states conservation for automatic assignment only);
//   overflow: a further operation delivers non-final pages WITHOUT the consumer draining the channel, so a request can
//   be closed by page overflow while its response is still streaming; its stream id must stay reserved (no other
//   request may receive the late pages) until the last page has arrived.
func verifInFlightHistory2(n int, depth int, mode int, overflow bool) {
	h := newInFlightRequestsHandler("verif", context.Background(), n, verifMaxPending, time.Second)
	var out []*verifReq
	closed := false
	anyDead := false
	for step := 0; step < depth; step++ {
		nops := 5
		if overflow {
			nops = 6
		}
		op := nd.Choice("op", nops)
		switch op {
		case 0: // send
			managed := mode == 0 || (mode == 2 && nd.Choice("managed", 2) == 0)
			id := int16(ManagedStreamId)
			if !managed {
				id = int16(1 + nd.Choice("explicit id", n+1))
			}
			f := frame.NewFrame(primitive.ProtocolVersion4, id, &message.Options{})
			r, err := h.onOutgoingFrameEnqueued(f)
			if closed {
				nd.Assert(err != nil, "send after close is refused")
				break
			}
			if err != nil {
				nd.Assert(r == nil, "a refused send returns no request")
				if mode != 2 && len(out) < n && (managed || verifIndexOf(out, id) < 0) {
					nd.Assert(false, "a send is accepted while fewer than N requests are unanswered")
				}
				break
			}
			nd.Assert(len(out) < n, "with N unanswered requests a further send is refused with an error")
			got := f.Header.StreamId
			nd.Assert(r.StreamId() == got, "the request carries the id written to the frame")
			if managed {
				nd.Assert(got >= 1, "assigned stream id is at least 1")
				nd.Assert(int(got) <= n, "assigned stream id is at most N")
			} else {
				nd.Assert(got == id, "a caller-chosen id is kept")
			}
			nd.Assert(verifIndexOf(out, got) < 0, "no other unanswered request carries the same stream id")
			out = append(out, &verifReq{req: r, id: got, managed: managed})
		case 1, 2, 5: // final response (1), non-final page with the consumer keeping up (2), non-final page unread (5)
			if len(out) == 0 {
				nd.Assume(false)
			}
			i := nd.Choice("which request", len(out))
			r := out[i]
			final := op == 1
			if !r.dead {
				if op == 2 && len(r.pending) >= verifMaxPending-1 {
					verifDrain(r, "drain")
				}
				if op == 1 && len(r.pending) >= verifMaxPending {
					verifDrain(r, "drain")
				}
			}
			g := verifResponse(r.id, final, !final || nd.Choice("final is a last page", 2) == 1)
			err := h.onIncomingFrameReceived(g)
			if closed {
				nd.Assert(err != nil, "delivery after close is refused")
				break
			}
			switch {
			case r.dead:
				// late pages of a response whose request was closed: nobody receives them
				if final {
					out = append(out[:i:i], out[i+1:]...)
				}
			case op == 5 && len(r.pending) >= verifMaxPending:
				nd.Assert(err != nil, "a page beyond MaxPending unread pages is reported")
				nd.Assert(r.req.IsDone(), "page overflow completes the request")
				nd.Assert(r.req.Err() != nil, "a request closed by page overflow carries an error")
				verifDrain(r, "after overflow")
				nd.Assert(verifClosedAndEmpty(r.req.Incoming()), "page overflow closes the request's channel")
				r.dead = true
				anyDead = true
			default:
				nd.Assert(err == nil, "a response for an unanswered request is delivered")
				r.pending = append(r.pending, g)
				if final {
					verifDrain(r, "final response")
					nd.Assert(verifClosedAndEmpty(r.req.Incoming()), "the channel is closed after the final response")
					nd.Assert(r.req.IsDone(), "the request is completed by its final response")
					nd.Assert(r.req.Err() == nil, "a normally completed request carries no error")
					out = append(out[:i:i], out[i+1:]...)
				} else {
					nd.Assert(!r.req.IsDone(), "a non-final page keeps the request open")
				}
			}
			verifCheckChannels2(out, "after delivery")
		case 3: // response for an unknown stream id
			id := int16(1 + nd.Choice("unknown id", n+1))
			if verifIndexOf(out, id) >= 0 {
				nd.Assume(false)
			}
			err := h.onIncomingFrameReceived(verifResponse(id, true, false))
			nd.Assert(err != nil, "a response for an unknown stream id is reported")
			verifCheckChannels2(out, "after unknown response")
		case 4: // close
			h.close()
			closed = true
			for _, r := range out {
				if !r.dead {
					verifDrain(r, "after close")
				}
				nd.Assert(verifClosedAndEmpty(r.req.Incoming()), "close closes the channel of every pending request")
				nd.Assert(r.req.IsDone(), "close completes every pending request")
				nd.Assert(r.req.Err() != nil, "a request completed by close carries an error")
			}
			out = nil
		}
		if !closed && mode == 0 {
			nd.Assert(len(h.streamIds)+len(out) == n, "ids in the pool plus ids of unanswered requests are exactly N (an answered request's id is assignable again)")
		}
		if !closed && !anyDead {
			nd.Assert(len(h.inFlight) == len(out), "exactly the unanswered requests are registered")
		}
	}
}

// live requests hold exactly the frames delivered to them; a request closed by overflow receives nothing further
func verifCheckChannels2(out []*verifReq, where string) {
	for _, r := range out {
		if r.dead {
			continue
		}
		nd.Assert(len(r.req.Incoming()) == len(r.pending), where+": a request's channel holds exactly the frames delivered for its stream id")
	}
}

func VerifC09_Mixed_N2() { verifInFlightHistory2(2, verifDepth(), 2, false) }
func VerifC09_Mixed_N3() { verifInFlightHistory2(3, 4, 2, false) } // depth 4 in both tiers: depth 5 exceeds the path limit
func VerifC09_Overflow_N1() { verifInFlightHistory2(1, verifDepth()+1, 0, true) }
func VerifC10_Overflow_N1() { verifInFlightHistory2(1, verifDepth()+1, 0, true) }
func VerifC10_Overflow_N2() { verifInFlightHistory2(2, verifDepth()+1, 0, true) }
func VerifC10_Mixed_N2()    { verifInFlightHistory2(2, verifDepth(), 2, false) }

func verifDepth() int {
	if verifThorough {
		return 5
	}
	return 4
}

func VerifC09_Managed_N1() { verifInFlightHistory(1, verifDepth(), false) }
func VerifC09_Managed_N2() { verifInFlightHistory(2, verifDepth(), false) }
func VerifC09_Managed_N3() { verifInFlightHistory(3, verifDepth(), false) }
func VerifC09_Explicit_N2() { verifInFlightHistory(2, verifDepth(), true) }
func VerifC10_Managed_N2() { verifInFlightHistory(2, verifDepth(), false) }
func VerifC10_Managed_N3() { verifInFlightHistory(3, verifDepth(), false) }
func VerifC10_Explicit_N3() { verifInFlightHistory(3, verifDepth(), true) }

// Events never reach a request (C10): processIncomingFrame on a connection object built field by field.
func VerifC10_EventsGoToTheEventChannel() {
	h := newInFlightRequestsHandler("verif", context.Background(), 2, verifMaxPending, time.Second)
	handled := 0
	c := &CqlClientConnection{inFlightHandler: h, events: make(chan *frame.Frame, 1),
		handlers: []EventHandler{func(event *frame.Frame, conn *CqlClientConnection) { handled++ }}}
	f := frame.NewFrame(primitive.ProtocolVersion4, ManagedStreamId, &message.Options{})
	r, err := h.onOutgoingFrameEnqueued(f)
	nd.Assert(err == nil, "send accepted")
	if err != nil {
		return
	}
	// an event whose stream id is arbitrary - possibly the id of the outstanding request
	ev := frame.NewFrame(primitive.ProtocolVersion4, nd.Int16("event stream id"), &message.StatusChangeEvent{ChangeType: primitive.StatusChangeTypeUp, Address: &primitive.Inet{Addr: []byte{1, 2, 3, 4}, Port: 9042}})
	abort := c.processIncomingFrame(ev)
	nd.Assert(!abort, "an event does not abort the connection")
	nd.Assert(len(r.Incoming()) == 0, "an event is never delivered to a request, whatever its stream id")
	nd.Assert(!r.IsDone(), "an event does not complete a request")
	nd.Assert(handled == 1, "event handlers are invoked")
	nd.Assert(len(c.events) == 1, "the event is placed on the event channel")
	if len(c.events) != 1 {
		return
	}
	got := <-c.events
	nd.Assert(got == ev, "the event channel delivers the event frame")
	// a second and third event: the channel (capacity 1) takes one, the next is dropped without blocking
	c.processIncomingFrame(ev)
	c.processIncomingFrame(ev)
	nd.Assert(len(c.events) == 1, "a full event channel drops further events instead of blocking")
	nd.Assert(len(r.Incoming()) == 0, "still nothing delivered to the request")
	// the real response still reaches the request
	resp := verifResponse(f.Header.StreamId, true, false)
	c.processIncomingFrame(resp)
	g, ok, _ := verifTake(r.Incoming())
	nd.Assert(ok && g == resp, "the response reaches the request with the same stream id")
}
