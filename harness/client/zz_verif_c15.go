package client

// C15 (unit level, DESIGN 5/C15): the sequential framing decisions of the client and server connections, executed
// on connection objects built in the harness - no sockets, no goroutines.

import (
	"bytes"
	"context"
	"net"
	"time"

	"github.com/datastax/go-cassandra-native-protocol/frame"
	nd "github.com/datastax/go-cassandra-native-protocol/internal/zzverifnd"
	"github.com/datastax/go-cassandra-native-protocol/message"
	"github.com/datastax/go-cassandra-native-protocol/primitive"
	"github.com/datastax/go-cassandra-native-protocol/segment"
)

type verifConn struct{}

func (verifConn) Read(b []byte) (int, error)         { return 0, nil }
func (verifConn) Write(b []byte) (int, error)        { return len(b), nil }
func (verifConn) Close() error                       { return nil }
func (verifConn) LocalAddr() net.Addr                { return nil }
func (verifConn) RemoteAddr() net.Addr               { return nil }
func (verifConn) SetDeadline(t time.Time) error      { return nil }
func (verifConn) SetReadDeadline(t time.Time) error  { return nil }
func (verifConn) SetWriteDeadline(t time.Time) error { return nil }

func verifCompression(i int) primitive.Compression {
	if i == 1 {
		return primitive.CompressionLz4
	}
	return primitive.CompressionNone
}

func verifClientConn(c primitive.Compression) *CqlClientConnection {
	return &CqlClientConnection{
		conn:               verifConn{},
		frameCodec:         frame.NewCodecWithCompression(NewBodyCompressor(c)),
		segmentCodec:       segment.NewCodecWithCompression(NewPayloadCompressor(c)),
		compression:        c,
		modernLayout:       true,
		events:             make(chan *frame.Frame, 4),
		inFlightHandler:    newInFlightRequestsHandler("verif", context.Background(), 4, 4, time.Second),
		payloadAccumulator: &payloadAccumulator{frameCodec: frame.NewRawCodec()},
	}
}

// the server connection comes from the real constructor (its field initialisation is part of the subject);
// the loops it starts are goroutines and are not run
func verifServerConn(c primitive.Compression) *CqlServerConnection {
	s, err := newCqlServerConnection(verifConn{}, context.Background(), nil, 4, time.Second, nil, nil, nil)
	nd.Assert(err == nil, "server connection is constructed")
	if c != primitive.CompressionNone {
		// what readFrame does when STARTUP negotiates compression
		st := frame.NewFrame(primitive.ProtocolVersion5, 1, message.NewStartup(message.StartupOptionCompression, string(c)))
		buf := &bytes.Buffer{}
		nd.Assert(frame.NewCodec().EncodeFrame(st, buf) == nil, "STARTUP encodes")
		nd.Assert(!s.readFrame(buf), "STARTUP is read")
		if len(s.incoming) == 1 {
			<-s.incoming
		}
	}
	s.modernLayout = true
	return s
}

func verifQueryFrame(compressFlag bool) *frame.Frame {
	f := frame.NewFrame(primitive.ProtocolVersion5, nd.Int16("stream"), &message.Query{Query: nd.String("q", 2), Options: &message.QueryOptions{Consistency: primitive.ConsistencyLevelOne}})
	if compressFlag {
		f.SetCompress(true)
	}
	return f
}

func verifResultFrame(compressFlag bool) *frame.Frame {
	f := frame.NewFrame(primitive.ProtocolVersion5, nd.Int16("stream"), &message.SetKeyspaceResult{Keyspace: nd.String("ks", 2)})
	if compressFlag {
		f.SetCompress(true)
	}
	return f
}

// expected envelope inside a v5 segment: the frame encoded without body compression, compression flag clear
func verifPlainEnvelope(f *frame.Frame) []byte {
	g := f.DeepCopy()
	g.Header.Flags = g.Header.Flags.Remove(primitive.HeaderFlagCompressed)
	buf := &bytes.Buffer{}
	nd.Assert(frame.NewCodec().EncodeFrame(g, buf) == nil, "reference envelope encodes")
	return buf.Bytes()
}

func verifCheckSegment(wire []byte, c primitive.Compression, want []byte, who string) {
	seg, err := segment.NewCodecWithCompression(NewPayloadCompressor(c)).DecodeSegment(bytes.NewBuffer(wire))
	nd.Assert(err == nil, who+": the bytes written are one decodable segment")
	if err != nil {
		return
	}
	nd.Assert(seg.Header.IsSelfContained, who+": the segment is self-contained")
	nd.Assert(bytes.Equal(seg.Payload.UncompressedData, want), who+": the segment payload is the envelope, not individually compressed and not flagged as compressed")
}

func verifWriteSegmentClient(ci int, flag bool) {
	nd.CompressPolicy(2)
	c := verifCompression(ci)
	conn := verifClientConn(c)
	f := verifQueryFrame(flag)
	want := verifPlainEnvelope(f)
	dest := &bytes.Buffer{}
	abort := conn.writeSegment(f, dest)
	nd.Assert(!abort, "client writeSegment succeeds")
	verifCheckSegment(dest.Bytes(), c, want, "client")
}

func verifWriteSegmentServer(ci int, flag bool) {
	nd.CompressPolicy(2)
	c := verifCompression(ci)
	conn := verifServerConn(c)
	f := verifResultFrame(flag)
	want := verifPlainEnvelope(f)
	dest := &bytes.Buffer{}
	abort := conn.writeSegment(f, dest)
	nd.Assert(!abort, "server writeSegment succeeds")
	verifCheckSegment(dest.Bytes(), c, want, "server")
}

func VerifC15_WriteSegment_Client_None()          { verifWriteSegmentClient(0, false) }
func VerifC15_WriteSegment_Client_None_Flagged()  { verifWriteSegmentClient(0, true) }
func VerifC15_WriteSegment_Client_LZ4()           { verifWriteSegmentClient(1, false) }
func VerifC15_WriteSegment_Client_LZ4_Flagged()   { verifWriteSegmentClient(1, true) }
func VerifC15_WriteSegment_Server_None()          { verifWriteSegmentServer(0, false) }
func VerifC15_WriteSegment_Server_LZ4()           { verifWriteSegmentServer(1, false) }
func VerifC15_WriteSegment_Server_LZ4_Flagged()   { verifWriteSegmentServer(1, true) }

// several envelopes in one self-contained segment are all delivered, in order
func VerifC15_SelfContained_Server_1to3Envelopes() {
	conn := verifServerConn(primitive.CompressionNone)
	n := nd.Len("envelopes", 1, 3)
	var payload []byte
	var sent []*frame.Frame
	for i := 0; i < n; i++ {
		f := verifQueryFrame(false)
		sent = append(sent, f)
		payload = append(payload, verifPlainEnvelope(f)...)
	}
	abort := conn.readSelfContainedSegment(&segment.Segment{Header: &segment.Header{IsSelfContained: true}, Payload: &segment.Payload{UncompressedData: payload}}, false)
	nd.Assert(!abort, "segment is processed")
	nd.Assert(len(conn.incoming) == n, "every envelope of the segment is delivered")
	if len(conn.incoming) != n {
		return
	}
	for i := 0; i < n; i++ {
		g := <-conn.incoming
		nd.Assert(g.Header.StreamId == sent[i].Header.StreamId, "envelopes are delivered in order")
		q, ok := g.Body.Message.(*message.Query)
		nd.Assert(ok, "delivered envelope is the QUERY that was sent")
		if ok {
			nd.Assert(q.Query == sent[i].Body.Message.(*message.Query).Query, "delivered envelope has the content that was sent")
		}
	}
}

func VerifC15_SelfContained_Client_1to3Envelopes() {
	conn := verifClientConn(primitive.CompressionNone)
	n := nd.Len("envelopes", 1, 3)
	var payload []byte
	var reqs []InFlightRequest
	var ks []string
	for i := 0; i < n; i++ {
		req := frame.NewFrame(primitive.ProtocolVersion5, ManagedStreamId, &message.Options{})
		r, err := conn.inFlightHandler.onOutgoingFrameEnqueued(req)
		nd.Assert(err == nil, "request registered")
		if err != nil {
			return
		}
		reqs = append(reqs, r)
		resp := frame.NewFrame(primitive.ProtocolVersion5, req.Header.StreamId, &message.SetKeyspaceResult{Keyspace: nd.String("ks", 2)})
		ks = append(ks, resp.Body.Message.(*message.SetKeyspaceResult).Keyspace)
		payload = append(payload, verifPlainEnvelope(resp)...)
	}
	abort := conn.readSelfContainedSegment(&segment.Segment{Header: &segment.Header{IsSelfContained: true}, Payload: &segment.Payload{UncompressedData: payload}}, false)
	nd.Assert(!abort, "segment is processed")
	for i, r := range reqs {
		nd.Assert(len(r.Incoming()) == 1, "every envelope of the segment reaches its request")
		if len(r.Incoming()) != 1 {
			return
		}
		g, ok := <-r.Incoming()
		nd.Assert(ok, "every envelope of the segment reaches its request")
		if ok {
			sk, isSk := g.Body.Message.(*message.SetKeyspaceResult)
			nd.Assert(isSk, "delivered response is the one that was sent")
			if isSk {
				nd.Assert(sk.Keyspace == ks[i], "delivered response has the content that was sent")
			}
		}
	}
}

// an envelope split over several segments by the peer is reassembled and delivered exactly once
func verifSplit(b []byte) [][]byte {
	parts := 2 + nd.Choice("extra part", 2)
	// first part holds at least the 9-byte header (stated precondition of the implementation)
	c1 := 9 + nd.Choice("cut1", len(b)-9-(parts-1)+1)
	if parts == 2 {
		if c1 >= len(b) {
			nd.Assume(false)
		}
		return [][]byte{b[:c1], b[c1:]}
	}
	c2 := c1 + 1 + nd.Choice("cut2", len(b)-c1-1)
	if c2 >= len(b) {
		nd.Assume(false)
	}
	return [][]byte{b[:c1], b[c1:c2], b[c2:]}
}

// verifSplitAt cuts b into two parts at a cut chosen under the given name (the second envelope of a history uses one
// split only, to keep the number of paths down)
func verifSplit2(b []byte, name string) [][]byte {
	c1 := 9 + nd.Choice(name, len(b)-9-1)
	if c1 >= len(b) {
		nd.Assume(false)
	}
	return [][]byte{b[:c1], b[c1:]}
}

// two envelopes, one after the other on the same connection, each split over several segments: the state the
// first one leaves behind must not disturb the second (the accumulator is observed through behaviour only)
func VerifC15_MultiSegment_Server() {
	conn := verifServerConn(primitive.CompressionNone)
	for round := 0; round < 2; round++ {
		f := verifQueryFrame(false)
		b := verifPlainEnvelope(f)
		var parts [][]byte
		if round == 0 {
			parts = verifSplit(b)
		} else {
			parts = verifSplit2(b, "second envelope cut")
		}
		for i, p := range parts {
			abort := conn.addMultiSegmentPayload(&segment.Payload{UncompressedData: p})
			nd.Assert(!abort, "part accepted")
			if i < len(parts)-1 {
				nd.Assert(len(conn.incoming) == 0, "nothing is delivered before the last part")
			}
		}
		nd.Assert(len(conn.incoming) == 1, "the reassembled envelope is delivered exactly once")
		if len(conn.incoming) != 1 {
			return
		}
		g := <-conn.incoming
		nd.Assert(g.Header.StreamId == f.Header.StreamId, "reassembled envelope has the stream id that was sent")
		q, ok := g.Body.Message.(*message.Query)
		nd.Assert(ok && q.Query == f.Body.Message.(*message.Query).Query, "reassembled envelope has the content that was sent")
	}
}

func VerifC15_MultiSegment_Client() {
	conn := verifClientConn(primitive.CompressionNone)
	for round := 0; round < 2; round++ {
		req := frame.NewFrame(primitive.ProtocolVersion5, ManagedStreamId, &message.Options{})
		r, err := conn.inFlightHandler.onOutgoingFrameEnqueued(req)
		nd.Assert(err == nil, "request registered")
		if err != nil {
			return
		}
		ksName := "ks"
		if round == 1 {
			ksName = "ks2"
		}
		resp := frame.NewFrame(primitive.ProtocolVersion5, req.Header.StreamId, &message.SetKeyspaceResult{Keyspace: nd.String(ksName, 3)})
		b := verifPlainEnvelope(resp)
		var parts [][]byte
		if round == 0 {
			parts = verifSplit(b)
		} else {
			parts = verifSplit2(b, "second envelope cut")
		}
		for i, p := range parts {
			abort := conn.addMultiSegmentPayload(&segment.Payload{UncompressedData: p})
			nd.Assert(!abort, "part accepted")
			if i < len(parts)-1 {
				nd.Assert(len(r.Incoming()) == 0, "nothing is delivered before the last part")
			}
		}
		nd.Assert(len(r.Incoming()) == 1, "the reassembled envelope reaches its request exactly once")
		if len(r.Incoming()) != 1 {
			return
		}
		g, ok := <-r.Incoming()
		nd.Assert(ok, "the reassembled envelope reaches its request")
		if ok {
			sk, isSk := g.Body.Message.(*message.SetKeyspaceResult)
			nd.Assert(isSk && sk.Keyspace == resp.Body.Message.(*message.SetKeyspaceResult).Keyspace, "reassembled envelope has the content that was sent")
		}
		nd.Assert(r.IsDone(), "the final response completes the request")
	}
}

// handshake unframed, everything after framed: the layout switch
func verifLayoutSwitch(server bool) {
	v := []primitive.ProtocolVersion{primitive.ProtocolVersion2, primitive.ProtocolVersion3, primitive.ProtocolVersion4, primitive.ProtocolVersion5, primitive.ProtocolVersionDse1, primitive.ProtocolVersionDse2}[nd.Choice("version", 6)]
	msgs := []message.Message{&message.Ready{}, &message.Authenticate{Authenticator: "a"}, &message.Supported{}, &message.AuthSuccess{}, &message.VoidResult{}, &message.ServerError{ErrorMessage: "e"}}
	k := nd.Choice("message", len(msgs))
	f := frame.NewFrame(v, 1, msgs[k])
	before := nd.Bool("already modern")
	want := before || (v == primitive.ProtocolVersion5 && k <= 1)
	if server {
		s := verifServerConn(primitive.CompressionNone)
		s.modernLayout = before
		s.maybeSwitchToModernLayout(f)
		nd.Assert(s.modernLayout == want, "server: segments are used exactly from READY/AUTHENTICATE of a v5 connection on, and never switched off")
	} else {
		c := verifClientConn(primitive.CompressionNone)
		c.modernLayout = before
		c.maybeSwitchToModernLayout(f)
		nd.Assert(c.modernLayout == want, "client: segments are used exactly from READY/AUTHENTICATE of a v5 connection on, and never switched off")
	}
}

func VerifC15_LayoutSwitch_Client() { verifLayoutSwitch(false) }
func VerifC15_LayoutSwitch_Server() { verifLayoutSwitch(true) }

// compression negotiated in STARTUP is adopted by the server's frame and segment codecs
func VerifC15_ServerAdoptsCompression() {
	k := nd.Choice("compression", 3)
	c := []primitive.Compression{primitive.CompressionNone, primitive.CompressionLz4, primitive.CompressionSnappy}[k]
	s, err := newCqlServerConnection(verifConn{}, context.Background(), nil, 4, time.Second, nil, nil, nil)
	nd.Assert(err == nil, "server connection is constructed")
	st := frame.NewFrame(primitive.ProtocolVersion4, 1, message.NewStartup())
	if c != primitive.CompressionNone {
		st.Body.Message.(*message.Startup).SetCompression(c)
	}
	buf := &bytes.Buffer{}
	nd.Assert(frame.NewCodec().EncodeFrame(st, buf) == nil, "STARTUP encodes")
	nd.Assert(!s.readFrame(buf), "STARTUP is read")
	nd.Assert(s.compression == c, "the connection records the negotiated compression")
	bc, ok := s.frameCodec.(interface{ GetBodyCompressor() frame.BodyCompressor })
	nd.Assert(ok, "frame codec exposes its compressor")
	if ok {
		nd.Assert((bc.GetBodyCompressor() != nil) == (c != primitive.CompressionNone), "the frame codec compresses bodies exactly when compression was negotiated")
	}
}
