// Package nd is the nondeterministic-input interface of the verification harnesses.
// Under the symbolic engine (gosym) every function here is intercepted; compiled natively the
// functions read a witness (VERIF_WITNESS=<json file>: name -> decimal string) so that a
// solver model can be replayed against the real build.
package nd

import (
	"runtime"
	"encoding/json"
	"sync"
	"reflect"
	"fmt"
	"math/big"
	"os"
	"sort"
	"strings"
)

var witness map[string]string
var counts = map[string]int{}

// Failures collects failed assertions of a native run.
var Failures []string
var Outputs = map[string]string{}
var Notes []string

type AssumeFailed struct{ Msg string }

func load() {
	if witness != nil {
		return
	}
	witness = map[string]string{}
	if p := os.Getenv("VERIF_WITNESS"); p != "" {
		b, err := os.ReadFile(p)
		if err != nil {
			panic(err)
		}
		if err := json.Unmarshal(b, &witness); err != nil {
			panic(err)
		}
	}
}

// Reset clears per-run state (between harness invocations in one process).
func Reset(w map[string]string) {
	witness = w
	if witness == nil {
		witness = map[string]string{}
	}
	counts = map[string]int{}
	Failures = nil
	Outputs = map[string]string{}
	Notes = nil
}

func key(name string) string {
	k := counts[name]
	counts[name] = k + 1
	if k == 0 {
		return name
	}
	return fmt.Sprintf("%s#%d", name, k)
}

var frozen bool

// Freeze(true) makes every scalar input the fixed value 1 / true until Freeze(false): used to build concrete base
// instances whose bytes are then partly replaced by arbitrary ones.
func Freeze(on bool) { frozen = on }

// Symbolic reports whether the harness runs under the symbolic executor (true) or natively (false). Harnesses use it
// only to swap a non-reflective stand-in for the real reflective implementation when replaying natively.
func Symbolic() bool { return false }

// Frozen reports whether inputs are currently frozen.
func Frozen() bool { return frozen }

func val(name string) *big.Int {
	if frozen {
		return big.NewInt(1)
	}
	load()
	s, ok := witness[key(name)]
	if !ok {
		return big.NewInt(0)
	}
	v, ok := new(big.Int).SetString(s, 10)
	if !ok {
		panic("bad witness value for " + name + ": " + s)
	}
	return v
}

func Bool(name string) bool     { return val(name).Sign() != 0 }
func Uint8(name string) uint8   { return uint8(val(name).Uint64()) }
func Uint16(name string) uint16 { return uint16(val(name).Uint64()) }
func Uint32(name string) uint32 { return uint32(val(name).Uint64()) }
func Uint64(name string) uint64 { return val(name).Uint64() }
func Int8(name string) int8     { return int8(val(name).Uint64()) }
func Int16(name string) int16   { return int16(val(name).Uint64()) }
func Int32(name string) int32   { return int32(val(name).Uint64()) }
func Int64(name string) int64   { return int64(val(name).Uint64()) }
func Int(name string) int       { return int(val(name).Uint64()) }

// Float32/Float64 are arbitrary bit patterns.
func Float32bits(name string) uint32 { return uint32(val(name).Uint64()) }
func Float64bits(name string) uint64 { return val(name).Uint64() }

// Bytes returns n arbitrary bytes (n concrete). n == 0 yields an empty non-nil slice.
func Bytes(name string, n int) []byte {
	out := make([]byte, n)
	for i := range out {
		out[i] = Uint8(fmt.Sprintf("%s[%d]", name, i))
	}
	return out
}

// String returns a string of n arbitrary bytes.
func String(name string, n int) string { return string(Bytes(name, n)) }

// Choice returns an arbitrary value in [0,n); the engine forks one path per value.
func Choice(name string, n int) int {
	v := int(val(name).Int64())
	if v < 0 || v >= n {
		panic(AssumeFailed{"choice out of range: " + name})
	}
	return v
}

// Len returns an arbitrary value in [lo,hi]; the engine forks.
func Len(name string, lo, hi int) int { return lo + Choice(name, hi-lo+1) }

func Assume(c bool) {
	if !c {
		panic(AssumeFailed{"assumption violated by witness"})
	}
}

func Assert(c bool, msg string) {
	if !c {
		Failures = append(Failures, msg)
	}
}

// Note records an informational event (reaching a point of interest).
func Note(msg string) { Notes = append(Notes, msg) }

// Out records an observable for translator validation.
func Out(name string, v uint64)      { Outputs[key("out:"+name)] = fmt.Sprint(v) }
func OutBool(name string, v bool)    { Outputs[key("out:"+name)] = fmt.Sprint(v) }
func OutBytes(name string, b []byte) { Outputs[key("out:"+name)] = fmt.Sprintf("%x", b) }
func OutString(name string, s string) { Outputs[key("out:"+name)] = fmt.Sprintf("%x", s) }

// In reports whether x equals one of vals (no short-circuit branching under the engine).
func In(x uint64, vals ...uint64) bool {
	for _, v := range vals {
		if x == v {
			return true
		}
	}
	return false
}

// InStr reports whether s equals one of vals.
func InStr(s string, vals ...string) bool {
	for _, v := range vals {
		if s == v {
			return true
		}
	}
	return false
}

// Epoch marks a new allocation epoch (objects allocated afterwards are "fresh").
func Epoch() {}

// AllocBound tells the engine up to which length symbolic allocations are case-split.
func AllocBound(n int) {}

// SharedMutable counts the mutable memory locations (pointer targets, slice elements, maps) reachable from both a and b.
// Zero-size pointees are ignored.
func SharedMutable(a, b interface{}) int {
	sa := map[uintptr]bool{}
	collect(reflect.ValueOf(a), sa, map[uintptr]bool{})
	sb := map[uintptr]bool{}
	collect(reflect.ValueOf(b), sb, map[uintptr]bool{})
	n := 0
	for k := range sb {
		if sa[k] {
			n++
		}
	}
	return n
}

func collect(v reflect.Value, out map[uintptr]bool, seen map[uintptr]bool) {
	switch v.Kind() {
	case reflect.Ptr:
		if v.IsNil() {
			return
		}
		p := v.Pointer()
		if seen[p] && v.Type().Elem().Size() != 0 {
			return
		}
		seen[p] = true
		if v.Type().Elem().Size() != 0 {
			out[p] = true
		}
		collect(v.Elem(), out, seen)
	case reflect.Slice:
		for i := 0; i < v.Len(); i++ {
			e := v.Index(i)
			if e.Type().Size() != 0 {
				out[e.Addr().Pointer()] = true
			}
			collect(e, out, seen)
		}
	case reflect.Map:
		if v.IsNil() {
			return
		}
		out[v.Pointer()] = true
		it := v.MapRange()
		for it.Next() {
			collect(it.Value(), out, seen)
		}
	case reflect.Struct:
		for i := 0; i < v.NumField(); i++ {
			collect(v.Field(i), out, seen)
		}
	case reflect.Array:
		for i := 0; i < v.Len(); i++ {
			collect(v.Index(i), out, seen)
		}
	case reflect.Interface:
		if !v.IsNil() {
			collect(v.Elem(), out, seen)
		}
	}
}

// Concurrently runs the given calls. Under the engine they run one after the other with write-footprint tracking
// and the result is the number of writes that hit memory shared between the calls, package-level variables, or
// pre-existing memory not reachable from the call's own captured arguments. Natively the calls run in parallel
// goroutines, repeatedly, so that the race detector (go test -race) is the oracle; the result is then 0.
func Concurrently(fns ...func()) int {
	for rep := 0; rep < 20; rep++ {
		if rep == 10 {
			// second half on one P: the calls then run back to back without any happens-before edge between them, and
			// per-P caches (sync.Pool) hand one call's memory to the next - the race detector reports conflicting
			// accesses whatever their timing
			defer runtime.GOMAXPROCS(runtime.GOMAXPROCS(1))
		}
		var wg sync.WaitGroup
		start := make(chan struct{})
		for _, f := range fns {
			wg.Add(1)
			go func(f func()) {
				defer wg.Done()
				<-start
				f()
			}(f)
		}
		close(start)
		wg.Wait()
	}
	return 0
}

// MathEqual compares two integers given as 64-bit patterns plus signedness (int64(x) if signed, else uint64(x)) as
// mathematical values.
func MathEqual(a uint64, aSigned bool, b uint64, bSigned bool) bool {
	toBig := func(v uint64, s bool) *big.Int {
		if s {
			return big.NewInt(int64(v))
		}
		return new(big.Int).SetUint64(v)
	}
	return toBig(a, aSigned).Cmp(toBig(b, bSigned)) == 0
}

// BigEqual: x == the integer given as a 64-bit pattern plus signedness.
func BigEqual(x *big.Int, v uint64, signed bool) bool {
	if signed {
		return x.Cmp(big.NewInt(int64(v))) == 0
	}
	return x.Cmp(new(big.Int).SetUint64(v)) == 0
}

// BigBits restricts the magnitude of subsequent BigInt values to 2^bits (engine only; natively the witness decides).
func BigBits(bits int) {}

// BigInt returns an arbitrary integer with |v| < 2^128.
func BigInt(name string) *big.Int {
	hi, lo, neg := Uint64(name+".hi"), Uint64(name+".lo"), Bool(name+".neg")
	v := new(big.Int).SetUint64(hi)
	v.Lsh(v, 64)
	v.Or(v, new(big.Int).SetUint64(lo))
	if neg {
		v.Neg(v)
	}
	return v
}

// ExportPC hands the current path condition to the check's post-processing under the given name (engine only).
func ExportPC(name string) {}

// CompressPolicy selects how the engine's compressor stubs pick the compressed length of a block:
// 0 = every length the library contract allows (forks), 1 = shortest (highest ratio), 2 = longest. Natively a no-op:
// the real compressor decides.
func CompressPolicy(p int) {}

// Report renders the outcome of a native run.
func Report() string {
	var sb strings.Builder
	for _, f := range Failures {
		fmt.Fprintf(&sb, "FAIL %s\n", f)
	}
	var ks []string
	for k := range Outputs {
		ks = append(ks, k)
	}
	sort.Strings(ks)
	for _, k := range ks {
		fmt.Fprintf(&sb, "OUT %s=%s\n", k, Outputs[k])
	}
	for _, n := range Notes {
		fmt.Fprintf(&sb, "NOTE %s\n", n)
	}
	return sb.String()
}
