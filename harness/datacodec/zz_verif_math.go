package datacodec

// math.go: the overflow-checked helpers behind the timestamp / date conversions. The conversions themselves take a
// time.Time (not modelled); these helpers carry all of their arithmetic, so they are checked on their own, with the
// constants the callers use (1000 ms per second in timestamp.go, 86400 s per day in date.go).

import (
	"math"

	nd "github.com/datastax/go-cassandra-native-protocol/internal/zzverifnd"
)

// addExact: a result returned without the overflow flag is the mathematical sum; the flag is raised only on overflow
func verifMathAddExact(mode int) {
	x, y := nd.Int64("x"), nd.Int64("y")
	r, overflow := addExact(x, y)
	// reference: the sum overflows iff it leaves [MinInt64, MaxInt64]; the comparisons below cannot wrap
	refOverflow := (y > 0 && x > math.MaxInt64-y) || (y < 0 && x < math.MinInt64-y)
	if mode&mC13 != 0 {
		if !overflow {
			nd.Assert(!refOverflow, "addExact: a sum returned without the overflow flag did not overflow")
			nd.Assert(r == x+y, "addExact: the sum returned is x+y")
		} else {
			nd.Assert(true, "rejected")
		}
	}
	if mode&mC11 != 0 {
		if !refOverflow {
			nd.Assert(!overflow, "addExact: a representable sum is not refused")
		} else {
			nd.Assert(true, "overflow")
		}
	}
}

// multiplyExact(x, 1000), the only use in the library (seconds -> milliseconds)
func verifMathMultiplyExact1000(mode int) {
	x := nd.Int64("x")
	r, overflow := multiplyExact(x, 1000)
	fits := x <= math.MaxInt64/1000 && x >= math.MinInt64/1000 // exact: truncated constants, product of the bounds fits
	if mode&mC13 != 0 {
		if !overflow {
			nd.Assert(fits, "multiplyExact(x, 1000): a product returned without the overflow flag did not overflow")
			nd.Assert(r == x*1000, "multiplyExact(x, 1000): the product returned is x*1000")
		} else {
			nd.Assert(true, "rejected")
		}
	}
	if mode&mC11 != 0 {
		if fits {
			nd.Assert(!overflow, "multiplyExact(x, 1000): a representable product is not refused")
		} else {
			nd.Assert(true, "overflow")
		}
	}
}

// floorDiv / floorMod by the constants used (1000, 86400): the floor quotient and the non-negative remainder
func verifMathFloor(k int64) {
	x := nd.Int64("x")
	q := floorDiv(x, k)
	m := floorMod(x, k)
	// reference from truncated division (k > 0): the quotient is one less when the remainder is negative
	rq, rm := x/k, x%k
	if rm < 0 {
		rq--
		rm += k
	}
	nd.Assert(q == rq, "floorDiv: largest quotient not above the algebraic one")
	nd.Assert(m == rm, "floorMod: remainder in [0, divisor)")
}

func verifMathFloor1000(mode int)  { verifMathFloor(1000) }
func verifMathFloor86400(mode int) { verifMathFloor(86400) }
