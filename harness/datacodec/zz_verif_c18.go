package datacodec

import (
	"math/big"

	nd "github.com/datastax/go-cassandra-native-protocol/internal/zzverifnd"
)

// C18 for the package-level datacodec singletons: two calls through the same codec object write only to their own
// destinations and to memory they allocate. Both workers get the same symbolic inputs (own copies), so that they
// follow the same path: every path of one call is explored once, the engine's criterion (no write to memory that
// existed before the call and is not reachable from its own arguments) applies to each worker, and the native -race
// run of a counterexample has both goroutines on the offending path.
func verifC18Codec(c Codec, width int) {
	nd.AllocBound(24)
	verifBigSetup()
	work := func(x int64, b []byte) func() {
		var d int64
		var i interface{}
		bi := new(big.Int)
		b = append([]byte(nil), b...)
		return func() {
			c.Encode(x, verifVersion)
			c.Encode(&x, verifVersion)
			c.Decode(b, &d, verifVersion)
			c.Decode(b, &i, verifVersion)
			c.Decode(b, bi, verifVersion)
			c.Decode(nil, &d, verifVersion)
		}
	}
	x, b := nd.Int64("x"), nd.Bytes("b", width)
	n := nd.Concurrently(work(x, b), work(x, b))
	nd.Assert(n == 0, "concurrent calls on a shared CQL value codec write no shared or package-level memory")
}

func VerifC18_Codec_Tinyint()  { verifC18Codec(Tinyint, 1) }
func VerifC18_Codec_Smallint() { verifC18Codec(Smallint, 2) }
func VerifC18_Codec_Int()      { verifC18Codec(Int, 4) }
func VerifC18_Codec_Bigint()   { verifC18Codec(Bigint, 8) }
func VerifC18_Codec_Counter()  { verifC18Codec(Counter, 8) }
func VerifC18_Codec_Varint() {
	nd.AllocBound(24)
	verifBigSetup()
	work := func(x int64, b []byte) func() {
		bi := new(big.Int)
		v := big.NewInt(x)
		b = append([]byte(nil), b...)
		return func() {
			Varint.Encode(v, verifVersion)
			Varint.Decode(b, bi, verifVersion)
		}
	}
	x, b := int64(nd.Int16("x")), nd.Bytes("b", 2)
	n := nd.Concurrently(work(x, b), work(x, b))
	nd.Assert(n == 0, "concurrent calls on the shared varint codec write no shared or package-level memory")
}
func VerifC18_Codec_Boolean()  { verifC18Codec(Boolean, 1) }
func VerifC18_Codec_Date()     { verifC18Codec(Date, 4) }
func VerifC18_Codec_Time()     { verifC18Codec(Time, 8) }

func VerifC18_Codec_FloatDoubleDecimalDuration() {
	nd.AllocBound(24)
	verifBigSetup()
	work := func(f float64, dec CqlDecimal, dur CqlDuration) func() {
		var g32 float32
		var g64 float64
		var gd CqlDecimal
		var gu CqlDuration
		return func() {
			if b, err := Float.Encode(float32(f), verifVersion); err == nil {
				Float.Decode(b, &g32, verifVersion)
			}
			if b, err := Double.Encode(f, verifVersion); err == nil {
				Double.Decode(b, &g64, verifVersion)
			}
			if b, err := Decimal.Encode(dec, verifVersion); err == nil {
				Decimal.Decode(b, &gd, verifVersion)
			}
			if b, err := Duration.Encode(dur, verifVersion); err == nil {
				Duration.Decode(b, &gu, verifVersion)
			}
		}
	}
	u, sc, dd := int64(nd.Int8("u")), int32(nd.Int8("s")), int32(nd.Int8("d"))
	mk := func() func() {
		return work(1.5, CqlDecimal{Unscaled: big.NewInt(u), Scale: sc}, CqlDuration{Months: 1, Days: dd, Nanos: 5})
	}
	n := nd.Concurrently(mk(), mk())
	nd.Assert(n == 0, "concurrent calls on shared float/double/decimal/duration codecs write no shared or package-level memory")
}
