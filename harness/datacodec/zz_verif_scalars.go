package datacodec

// Hand-written harnesses for the scalar codecs that are not plain integers: duration, float, double, boolean,
// the numeric representations of date / time / timestamp, and decimal. Each body takes a mode (mC11..mC14);
// the per-property wrappers are at the end. References follow section 5 of specs/native_protocol_v5.spec.

import (
	"bytes"
	"math"
	"math/big"
	"time"

	nd "github.com/datastax/go-cassandra-native-protocol/internal/zzverifnd"
)

// ---- reference [vint] (spec section 3): zig-zag, then unsigned vint with leading-ones length prefix ----

func refUnsignedVint(b []byte, v uint64) []byte {
	// number of extra bytes: smallest n in 0..8 with v < 2^(7*(n+1)) (n = 8: all 64 bits follow a 0xFF byte)
	n := 0
	for n < 8 {
		if v>>uint(7*(n+1)) == 0 {
			break
		}
		n++
	}
	if n == 8 {
		b = append(b, 0xFF)
		for i := 7; i >= 0; i-- {
			b = append(b, byte(v>>uint(8*i)))
		}
		return b
	}
	first := byte(0xFF<<uint(8-n)) | byte(v>>uint(8*n))
	b = append(b, first)
	for i := n - 1; i >= 0; i-- {
		b = append(b, byte(v>>uint(8*i)))
	}
	return b
}

func refVint(b []byte, v int64) []byte {
	return refUnsignedVint(b, uint64(v>>63)^uint64(v<<1))
}

// ---- duration ----

func verifDurationEncode(mode int) {
	nd.AllocBound(32)
	// one component ranges over its whole domain, the other two over the one-byte vint range (-64..63): the
	// three-way product of vint size classes (9^3 paths) is not explored
	d := CqlDuration{Months: nd.Int32("months"), Days: nd.Int32("days"), Nanos: time.Duration(nd.Int64("nanos"))}
	which := nd.Choice("full-range component", 3)
	if which != 0 {
		nd.Assume(d.Months >= -64)
		nd.Assume(d.Months <= 63)
	}
	if which != 1 {
		nd.Assume(d.Days >= -64)
		nd.Assume(d.Days <= 63)
	}
	if which != 2 {
		nd.Assume(d.Nanos >= -64)
		nd.Assume(d.Nanos <= 63)
	}
	b, err := Duration.Encode(d, verifVersion)
	nd.Assert(err == nil, "Duration.Encode succeeds")
	if err != nil {
		return
	}
	if mode&mC12 != 0 {
		want := refVint(refVint(refVint(nil, int64(d.Months)), int64(d.Days)), int64(d.Nanos))
		nd.Assert(bytes.Equal(b, want), "duration = three zig-zag [vint]s: months, days, nanoseconds")
	}
	if mode&mC11 != 0 {
		var g CqlDuration
		wasNull, err := Duration.Decode(b, &g, verifVersion)
		nd.Assert(err == nil && !wasNull, "own duration decodes")
		nd.Assert(g == d, "duration round trip")
		var i interface{}
		wasNull, err = Duration.Decode(b, &i, verifVersion)
		nd.Assert(err == nil && !wasNull, "duration decodes into an untyped destination")
		p, ok := i.(CqlDuration)
		nd.Assert(ok, "untyped destination receives a CqlDuration")
		if ok {
			nd.Assert(p == d, "untyped destination holds the same duration")
		}
	}
}

// spec-formatted bytes with arbitrary 64-bit components: a component that does not fit must not be delivered wrapped
func verifDurationDecode(mode int) {
	nd.AllocBound(32)
	m, dd, n := nd.Int64("months"), nd.Int64("days"), nd.Int64("nanos")
	which := nd.Choice("full-range component", 3)
	if which != 0 {
		nd.Assume(m >= -64)
		nd.Assume(m <= 63)
	}
	if which != 1 {
		nd.Assume(dd >= -64)
		nd.Assume(dd <= 63)
	}
	if which != 2 {
		nd.Assume(n >= -64)
		nd.Assume(n <= 63)
	}
	b := refVint(refVint(refVint(nil, m), dd), n)
	var g CqlDuration
	wasNull, err := Duration.Decode(b, &g, verifVersion)
	nd.Assert(!wasNull, "non-empty duration is not NULL")
	if err == nil {
		nd.Assert(int64(g.Months) == m, "Duration.Decode: months delivered without error equal the encoded months")
		nd.Assert(int64(g.Days) == dd, "Duration.Decode: days delivered without error equal the encoded days")
		nd.Assert(int64(g.Nanos) == n, "Duration.Decode: nanoseconds delivered without error equal the encoded nanoseconds")
	} else {
		nd.Assert(true, "rejected")
	}
}

func verifDurationNull(mode int) {
	nd.AllocBound(32)
	for _, src := range [][]byte{nil, {}} {
		g := CqlDuration{Months: 1, Days: 2, Nanos: 3}
		wasNull, err := Duration.Decode(src, &g, verifVersion)
		nd.Assert(err == nil && wasNull, "NULL duration is reported as null without error")
		nd.Assert(g == CqlDuration{}, "destination left at its zero value")
	}
	var p *CqlDuration
	b, err := Duration.Encode(p, verifVersion)
	nd.Assert(err == nil && b == nil, "nil *CqlDuration encodes as NULL")
	b, err = Duration.Encode(nil, verifVersion)
	nd.Assert(err == nil && b == nil, "untyped nil encodes as NULL")
}

// ---- float / double ----

func verifFloatEncode32(mode int) {
	nd.AllocBound(32)
	bits := nd.Float32bits("x")
	x := math.Float32frombits(bits)
	b, err := Float.Encode(x, verifVersion)
	nd.Assert(err == nil, "Float.Encode(float32) succeeds")
	if err != nil {
		return
	}
	if mode&(mC12|mC13) != 0 {
		nd.Assert(bytes.Equal(b, refBE(uint64(bits), 4)), "float = 4-byte IEEE 754 binary32, big-endian")
	}
	if mode&mC11 != 0 {
		var g float32
		wasNull, err := Float.Decode(b, &g, verifVersion)
		nd.Assert(err == nil && !wasNull, "own float decodes")
		nd.Assert(math.Float32bits(g) == bits, "float32 round trip (bit-exact)")
	}
}

func verifFloatEncode64(mode int) {
	nd.AllocBound(32)
	x := math.Float64frombits(nd.Float64bits("x"))
	b, err := Float.Encode(x, verifVersion)
	if err != nil {
		nd.Assert(b == nil, "no bytes with an error")
		return
	}
	if len(b) != 4 {
		nd.Assert(false, "float is 4 bytes")
		return
	}
	f := math.Float32frombits(uint32(b[0])<<24 | uint32(b[1])<<16 | uint32(b[2])<<8 | uint32(b[3]))
	if mode&(mC13|mC11) != 0 {
		nd.Assert(float64(f) == x, "Float.Encode(float64): a value encoded without error is represented exactly")
	}
}

func verifDoubleEncode64(mode int) {
	nd.AllocBound(32)
	bits := nd.Float64bits("x")
	x := math.Float64frombits(bits)
	b, err := Double.Encode(x, verifVersion)
	nd.Assert(err == nil, "Double.Encode(float64) succeeds")
	if err != nil {
		return
	}
	if mode&(mC12|mC13) != 0 {
		nd.Assert(bytes.Equal(b, refBE(bits, 8)), "double = 8-byte IEEE 754 binary64, big-endian")
	}
	if mode&mC11 != 0 {
		var g float64
		wasNull, err := Double.Decode(b, &g, verifVersion)
		nd.Assert(err == nil && !wasNull, "own double decodes")
		nd.Assert(math.Float64bits(g) == bits, "float64 round trip (bit-exact)")
	}
}

func verifDoubleDecode32(mode int) {
	nd.AllocBound(32)
	b := nd.Bytes("b", 8)
	var g float32
	wasNull, err := Double.Decode(b, &g, verifVersion)
	nd.Assert(!wasNull, "non-empty double is not NULL")
	if err == nil {
		var bits uint64
		for _, x := range b {
			bits = bits<<8 | uint64(x)
		}
		nd.Assert(float64(g) == math.Float64frombits(bits), "Double.Decode(*float32): a value delivered without error is exact")
	} else {
		nd.Assert(true, "rejected")
	}
}

func verifFloatNull(mode int) {
	nd.AllocBound(32)
	for _, src := range [][]byte{nil, {}} {
		g := float32(1.5)
		wasNull, err := Float.Decode(src, &g, verifVersion)
		nd.Assert(err == nil && wasNull && g == 0, "NULL float: reported, no error, destination zero")
		h := 2.5
		wasNull, err = Double.Decode(src, &h, verifVersion)
		nd.Assert(err == nil && wasNull && h == 0, "NULL double: reported, no error, destination zero")
	}
	var p *float32
	b, err := Float.Encode(p, verifVersion)
	nd.Assert(err == nil && b == nil, "nil *float32 encodes as NULL")
	var q *float64
	b, err = Double.Encode(q, verifVersion)
	nd.Assert(err == nil && b == nil, "nil *float64 encodes as NULL")
}

// ---- boolean ----

func verifBoolean(mode int) {
	nd.AllocBound(32)
	x := nd.Bool("x")
	b, err := Boolean.Encode(x, verifVersion)
	nd.Assert(err == nil, "Boolean.Encode succeeds")
	if err != nil {
		return
	}
	if mode&mC12 != 0 {
		nd.Assert(len(b) == 1, "boolean is one byte")
		if len(b) == 1 {
			nd.Assert((b[0] != 0) == x, "0 = false, anything else = true")
		}
	}
	if mode&mC11 != 0 {
		var g bool
		wasNull, err := Boolean.Decode(b, &g, verifVersion)
		nd.Assert(err == nil && !wasNull && g == x, "boolean round trip")
	}
	// spec-formatted: any non-zero byte is true
	y := nd.Uint8("byte")
	var g bool
	wasNull, err := Boolean.Decode([]byte{y}, &g, verifVersion)
	nd.Assert(err == nil && !wasNull, "one byte decodes")
	nd.Assert(g == (y != 0), "any non-zero byte denotes true")
}

func verifBooleanNull(mode int) {
	nd.AllocBound(32)
	for _, src := range [][]byte{nil, {}} {
		g := true
		wasNull, err := Boolean.Decode(src, &g, verifVersion)
		nd.Assert(err == nil && wasNull && !g, "NULL boolean: reported, no error, destination false")
	}
	var p *bool
	b, err := Boolean.Encode(p, verifVersion)
	nd.Assert(err == nil && b == nil, "nil *bool encodes as NULL")
}

// ---- date / time / timestamp, numeric representations ----

func verifDateInt(mode int) {
	nd.AllocBound(32)
	x := nd.Int64("days")
	b, err := Date.Encode(x, verifVersion)
	if err != nil {
		nd.Assert(b == nil, "no bytes with an error")
		return
	}
	if len(b) != 4 {
		nd.Assert(false, "date is 4 bytes")
		return
	}
	wire := uint64(b[0])<<24 | uint64(b[1])<<16 | uint64(b[2])<<8 | uint64(b[3])
	if mode&(mC12|mC13) != 0 {
		// unsigned, centred on 2^31: wire = days + 2^31 computed in 64 bits (no wrap-around in the reference)
		nd.Assert(nd.MathEqual(wire, false, uint64(x+(1<<31)), true), "date = days since the epoch + 2^31 as an unsigned 32-bit integer")
	}
	if mode&mC11 != 0 {
		var g int64
		wasNull, err := Date.Decode(b, &g, verifVersion)
		nd.Assert(err == nil && !wasNull && g == x, "date round trip through int64 days")
	}
}

func verifDateDecode(mode int) {
	nd.AllocBound(32)
	b := nd.Bytes("b", 4)
	var g int32
	wasNull, err := Date.Decode(b, &g, verifVersion)
	nd.Assert(err == nil && !wasNull, "4 bytes decode as a date")
	wire := uint64(b[0])<<24 | uint64(b[1])<<16 | uint64(b[2])<<8 | uint64(b[3])
	nd.Assert(nd.MathEqual(uint64(int64(g)+(1<<31)), true, wire, false), "Date.Decode(*int32): days = wire value - 2^31")
}

func verifTimeInt(mode int) {
	nd.AllocBound(32)
	x := nd.Int64("nanos")
	b, err := Time.Encode(x, verifVersion)
	if err != nil {
		nd.Assert(b == nil, "no bytes with an error")
		return
	}
	if mode&(mC12|mC13) != 0 {
		nd.Assert(bytes.Equal(b, refBE(uint64(x), 8)), "time = nanoseconds since midnight as an 8-byte [long]")
	}
	if mode&mC11 != 0 {
		var g int64
		wasNull, err := Time.Decode(b, &g, verifVersion)
		nd.Assert(err == nil && !wasNull && g == x, "time round trip through int64 nanoseconds")
	}
}

func verifTimeDuration(mode int) {
	nd.AllocBound(32)
	x := time.Duration(nd.Int64("nanos"))
	b, err := Time.Encode(x, verifVersion)
	if err != nil {
		nd.Assert(b == nil, "no bytes with an error")
		return
	}
	if mode&(mC12|mC13) != 0 {
		nd.Assert(bytes.Equal(b, refBE(uint64(x), 8)), "time = nanoseconds since midnight as an 8-byte [long]")
		nd.Assert(x >= 0, "an encoded time of day is not negative")
		nd.Assert(x <= 86399999999999, "an encoded time of day is at most 86399999999999")
	}
	if mode&mC11 != 0 {
		var g time.Duration
		wasNull, err := Time.Decode(b, &g, verifVersion)
		nd.Assert(err == nil && !wasNull && g == x, "time round trip through time.Duration")
	}
}

func verifTimestampInt(mode int) {
	nd.AllocBound(32)
	x := nd.Int64("millis")
	b, err := Timestamp.Encode(x, verifVersion)
	if err != nil {
		nd.Assert(b == nil, "no bytes with an error")
		return
	}
	if mode&(mC12|mC13) != 0 {
		nd.Assert(bytes.Equal(b, refBE(uint64(x), 8)), "timestamp = milliseconds since the epoch as an 8-byte [long]")
	}
	if mode&mC11 != 0 {
		var g int64
		wasNull, err := Timestamp.Decode(b, &g, verifVersion)
		nd.Assert(err == nil && !wasNull && g == x, "timestamp round trip through int64 milliseconds")
	}
}

// ---- decimal ----

func verifDecimal(mode int) {
	nd.AllocBound(32)
	verifBigSetup()
	d := CqlDecimal{Unscaled: nd.BigInt("unscaled"), Scale: nd.Int32("scale")}
	b, err := Decimal.Encode(d, verifVersion)
	nd.Assert(err == nil, "Decimal.Encode succeeds")
	if err != nil {
		return
	}
	if len(b) < 5 {
		nd.Assert(false, "decimal = [int] scale followed by a varint of at least one byte")
		return
	}
	if mode&(mC12|mC13) != 0 {
		nd.Assert(bytes.Equal(b[:4], refBE(uint64(d.Scale), 4)), "decimal starts with the scale as a 4-byte [int]")
		nd.Assert(refVarintValue(b[4:]).Cmp(d.Unscaled) == 0, "the rest is the unscaled value as a two's complement varint")
		if len(b) >= 6 {
			redundant0 := b[4] == 0x00 && b[5]&0x80 == 0
			redundantF := b[4] == 0xFF && b[5]&0x80 != 0
			nd.Assert(!redundant0, "varint is minimal (no redundant leading 0x00)")
			nd.Assert(!redundantF, "varint is minimal (no redundant leading 0xFF)")
		}
	}
	if mode&mC11 != 0 {
		var g CqlDecimal
		wasNull, err := Decimal.Decode(b, &g, verifVersion)
		nd.Assert(err == nil && !wasNull, "own decimal decodes")
		if err == nil && g.Unscaled != nil {
			nd.Assert(g.Scale == d.Scale, "decimal scale round trip")
			nd.Assert(g.Unscaled.Cmp(d.Unscaled) == 0, "decimal unscaled value round trip")
		}
	}
}

func verifDecimalNull(mode int) {
	nd.AllocBound(32)
	for _, src := range [][]byte{nil, {}} {
		g := CqlDecimal{Unscaled: big.NewInt(7), Scale: 3}
		wasNull, err := Decimal.Decode(src, &g, verifVersion)
		nd.Assert(err == nil && wasNull, "NULL decimal is reported as null without error")
		nd.Assert(g.Unscaled == nil && g.Scale == 0, "destination left at its zero value")
	}
	var p *CqlDecimal
	b, err := Decimal.Encode(p, verifVersion)
	nd.Assert(err == nil && b == nil, "nil *CqlDecimal encodes as NULL")
}

// the spec's own varint table (section 5.24)
func verifVarintSpecTable(mode int) {
	nd.AllocBound(32)
	table := []struct {
		v int64
		b []byte
	}{{0, []byte{0x00}}, {1, []byte{0x01}}, {127, []byte{0x7F}}, {128, []byte{0x00, 0x80}}, {129, []byte{0x00, 0x81}},
		{-1, []byte{0xFF}}, {-128, []byte{0x80}}, {-129, []byte{0xFF, 0x7F}}}
	for _, e := range table {
		b, err := Varint.Encode(e.v, verifVersion)
		nd.Assert(err == nil, "Varint.Encode succeeds on the spec's examples")
		nd.Assert(bytes.Equal(b, e.b), "Varint.Encode matches the spec's varint example table")
		nd.Assert(bytes.Equal(refVarint(uint64(e.v), true), e.b), "the reference serializer matches the spec's table (oracle validation)")
		var g int64
		wasNull, err := Varint.Decode(e.b, &g, verifVersion)
		nd.Assert(err == nil && !wasNull && g == e.v, "the spec's example bytes decode to the value they denote")
	}
}
