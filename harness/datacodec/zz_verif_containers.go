package datacodec

// Container codecs at the wire layer: list/set (writeCollection/readCollection), map (writeMap/readMap), tuple
// (writeTuple/readTuple) and UDT (writeUdt/readUdt) with the real element codecs. The reflective extractors and
// injectors of extractors.go/injectors.go cannot be executed symbolically (package reflect is not modelled), so under
// the symbolic executor the wire-layer functions are driven through the non-reflective stand-ins below, which keep
// what the real ones do with typed slices/maps of pointers: an element is handed to the element codec as a typed
// pointer (nil = NULL), a decoded NULL becomes a nil pointer, and the injector factory carries reflect.MakeSlice's
// contract (panics on a negative length). Natively (replay, translator validation) the same harness goes through the
// real reflective codecs (NewList/NewMap/NewTuple/NewUserDefined), so a counterexample is confirmed on the public API.

import (
	"bytes"
	"errors"

	"github.com/datastax/go-cassandra-native-protocol/datatype"
	nd "github.com/datastax/go-cassandra-native-protocol/internal/zzverifnd"
	"github.com/datastax/go-cassandra-native-protocol/primitive"
)

var verifContainerVersions = []primitive.ProtocolVersion{primitive.ProtocolVersion2, primitive.ProtocolVersion3,
	primitive.ProtocolVersion4, primitive.ProtocolVersion5, primitive.ProtocolVersionDse1, primitive.ProtocolVersionDse2}

var verifNullNames = []string{"elem0.null", "elem1.null", "elem2.null"}
var verifValNames = []string{"elem0", "elem1", "elem2"}
var verifKeyNullNames = []string{"key0.null", "key1.null", "key2.null"}
var verifKeyNames = []string{"key0", "key1", "key2"}

// ---- stand-ins ----

type verifSliceExt struct{ elems []*int32 }

func (e *verifSliceExt) getElem(index int, _ interface{}) (interface{}, error) {
	if index < 0 || index >= len(e.elems) {
		return nil, errors.New("slice index out of range")
	}
	return e.elems[index], nil
}

// the destination grows as elements are set (the loop of readCollection sets index 0, 1, 2 ... in order), so that a
// symbolic wire-supplied size is not case-split by an allocation; size keeps what the factory was asked for
type verifSliceInj struct {
	out  []*int32
	size int
}

func (j *verifSliceInj) zeroElem(int, interface{}) (interface{}, error) { return new(int32), nil }
func (j *verifSliceInj) setElem(index int, _, value interface{}, _, valueWasNull bool) error {
	if index < 0 || index >= j.size || index > len(j.out) {
		return errors.New("slice index out of range")
	}
	var v *int32
	if !valueWasNull {
		v = value.(*int32)
	}
	if index == len(j.out) {
		j.out = append(j.out, v)
	} else {
		j.out[index] = v
	}
	return nil
}

func verifSliceFactory(inj *verifSliceInj) func(int) (injector, error) {
	return func(size int) (injector, error) {
		if size < 0 {
			panic("reflect.MakeSlice: negative len") // the contract of reflect.MakeSlice, which the real factory calls
		}
		inj.size = size
		return inj, nil
	}
}

type verifMapExt struct {
	keys []*int16
	vals []*int32
}

func (e *verifMapExt) getKey(index int) interface{} { return e.keys[index] }
func (e *verifMapExt) getElem(index int, _ interface{}) (interface{}, error) {
	if index < 0 || index >= len(e.vals) {
		return nil, errors.New("no such key")
	}
	return e.vals[index], nil
}

type verifMapInj struct {
	keys []*int16
	vals []*int32
}

func (j *verifMapInj) zeroKey(int) (interface{}, error)               { return new(int16), nil }
func (j *verifMapInj) zeroElem(int, interface{}) (interface{}, error) { return new(int32), nil }
func (j *verifMapInj) setElem(_ int, key, value interface{}, keyWasNull, valueWasNull bool) error {
	var k *int16
	var v *int32
	if !keyWasNull {
		k = key.(*int16)
	}
	if !valueWasNull {
		v = value.(*int32)
	}
	j.keys = append(j.keys, k)
	j.vals = append(j.vals, v)
	return nil
}

// tuple<int, smallint> and udt{a int, b smallint}
type verifPairExt struct {
	a *int32
	b *int16
}

func (e *verifPairExt) getElem(index int, _ interface{}) (interface{}, error) {
	switch index {
	case 0:
		return e.a, nil
	case 1:
		return e.b, nil
	}
	return nil, errors.New("no such field")
}

type verifPairInj struct {
	a    *int32
	b    *int16
	sets int
}

func (j *verifPairInj) zeroElem(index int, _ interface{}) (interface{}, error) {
	switch index {
	case 0:
		return new(int32), nil
	case 1:
		return new(int16), nil
	}
	return nil, errors.New("no such field")
}
func (j *verifPairInj) setElem(index int, _, value interface{}, _, valueWasNull bool) error {
	j.sets++
	switch index {
	case 0:
		if valueWasNull {
			j.a = nil
		} else {
			j.a = value.(*int32)
		}
		return nil
	case 1:
		if valueWasNull {
			j.b = nil
		} else {
			j.b = value.(*int16)
		}
		return nil
	}
	return errors.New("no such field")
}

type verifPairStruct struct {
	A *int32 `cassandra:"a"`
	B *int16 `cassandra:"b"`
}

var verifPairNames = []string{"a", "b"}

// ---- the two ways through the codecs ----

func verifListCodec() Codec {
	c, err := NewList(datatype.NewList(datatype.Int))
	if err != nil {
		panic(err)
	}
	return c
}

func verifEncodeList(src []*int32, version primitive.ProtocolVersion) ([]byte, error) {
	if nd.Symbolic() {
		return writeCollection(&verifSliceExt{src}, Int, len(src), version)
	}
	return verifListCodec().Encode(src, version)
}

func verifDecodeList(b []byte, version primitive.ProtocolVersion) ([]*int32, error) {
	if nd.Symbolic() {
		inj := &verifSliceInj{}
		err := readCollection(b, verifSliceFactory(inj), Int, version)
		if err == nil {
			nd.Assert(len(inj.out) == inj.size, "the list decoder sets exactly as many elements as the size it announced")
		}
		return inj.out, err
	}
	var out []*int32
	_, err := verifListCodec().Decode(b, &out, version)
	return out, err
}

func verifMapCodec() Codec {
	c, err := NewMap(datatype.NewMap(datatype.Smallint, datatype.Int))
	if err != nil {
		panic(err)
	}
	return c
}

func verifEncodeMap(keys []*int16, vals []*int32, version primitive.ProtocolVersion) ([]byte, error) {
	if nd.Symbolic() {
		return writeMap(&verifMapExt{keys, vals}, len(keys), Smallint, Int, version)
	}
	m := make(map[*int16]*int32, len(keys))
	for i := range keys {
		m[keys[i]] = vals[i]
	}
	return verifMapCodec().Encode(m, version)
}

func verifDecodeMap(b []byte, version primitive.ProtocolVersion) ([]*int16, []*int32, error) {
	if nd.Symbolic() {
		inj := &verifMapInj{}
		err := readMap(b, func(size int) (keyValueInjector, error) { return inj, nil }, Smallint, Int, version)
		return inj.keys, inj.vals, err
	}
	var m map[*int16]*int32
	_, err := verifMapCodec().Decode(b, &m, version)
	var ks []*int16
	var vs []*int32
	for k, v := range m {
		ks = append(ks, k)
		vs = append(vs, v)
	}
	return ks, vs, err
}

func verifTupleCodec() Codec {
	c, err := NewTuple(datatype.NewTuple(datatype.Int, datatype.Smallint))
	if err != nil {
		panic(err)
	}
	return c
}

func verifUdtCodec() Codec {
	t, err := datatype.NewUserDefined("ks", "t", verifPairNames, []datatype.DataType{datatype.Int, datatype.Smallint})
	if err != nil {
		panic(err)
	}
	c, err := NewUserDefined(t)
	if err != nil {
		panic(err)
	}
	return c
}

func verifEncodePair(udt bool, a *int32, b *int16, version primitive.ProtocolVersion) ([]byte, error) {
	if nd.Symbolic() {
		if udt {
			return writeUdt(&verifPairExt{a, b}, verifPairNames, []Codec{Int, Smallint}, version)
		}
		return writeTuple(&verifPairExt{a, b}, []Codec{Int, Smallint}, version)
	}
	if udt {
		return verifUdtCodec().Encode(verifPairStruct{a, b}, version)
	}
	return verifTupleCodec().Encode(verifPairStruct{a, b}, version)
}

func verifDecodePair(udt bool, src []byte, version primitive.ProtocolVersion) (a *int32, b *int16, err error) {
	if nd.Symbolic() {
		inj := &verifPairInj{}
		if udt {
			err = readUdt(src, inj, verifPairNames, []Codec{Int, Smallint}, version)
		} else {
			err = readTuple(src, inj, []Codec{Int, Smallint}, version)
		}
		return inj.a, inj.b, err
	}
	var d verifPairStruct
	if udt {
		_, err = verifUdtCodec().Decode(src, &d, version)
	} else {
		_, err = verifTupleCodec().Decode(src, &d, version)
	}
	return d.A, d.B, err
}

// ---- reference serialisation (spec section 6: collections; [bytes] / v2 [short bytes]) ----

func refCount(b []byte, n int, version primitive.ProtocolVersion) []byte {
	if version >= primitive.ProtocolVersion3 {
		return append(b, refBE(uint64(n), 4)...)
	}
	return append(b, refBE(uint64(n), 2)...)
}

// an element of w big-endian bytes, or NULL (length -1; not expressible in v2)
func refElem(b []byte, null bool, v uint64, w int, version primitive.ProtocolVersion) []byte {
	if version >= primitive.ProtocolVersion3 {
		if null {
			return append(b, 0xFF, 0xFF, 0xFF, 0xFF)
		}
		b = append(b, refBE(uint64(w), 4)...)
	} else {
		b = append(b, refBE(uint64(w), 2)...)
	}
	return append(b, refBE(v, w)...)
}

func verifMaxElems() int {
	if verifThorough {
		return 3
	}
	return 2
}

// ---- list / set ----

func verifList(mode int) {
	nd.AllocBound(64)
	version := verifContainerVersions[nd.Choice("version", len(verifContainerVersions))]
	n := nd.Len("elements", 0, verifMaxElems())
	src := make([]*int32, n)
	anyNull := false
	var want []byte
	want = refCount(want, n, version)
	for i := 0; i < n; i++ {
		if nd.Choice(verifNullNames[i], 2) == 1 {
			anyNull = true
			want = refElem(want, true, 0, 4, version)
		} else {
			v := nd.Int32(verifValNames[i])
			src[i] = &v
			want = refElem(want, false, uint64(uint32(v)), 4, version)
		}
	}
	b, err := verifEncodeList(src, version)
	if version == primitive.ProtocolVersion2 && anyNull {
		if mode&mC14 != 0 {
			nd.Assert(err != nil, "protocol v2 cannot express a NULL collection element: encoding is refused")
		}
		return
	}
	nd.Assert(err == nil, "list encodes")
	if err != nil {
		return
	}
	if mode&mC12 != 0 {
		nd.Assert(bytes.Equal(b, want), "list = count ([int] from v3, [short] in v2) then each element as [bytes] ([short bytes] in v2), NULL as length -1")
	}
	if mode&(mC11|mC14) != 0 {
		out, err := verifDecodeList(b, version)
		nd.Assert(err == nil, "own list bytes decode")
		if err != nil {
			return
		}
		nd.Assert(len(out) == n, "list round trip keeps the element count")
		if len(out) != n {
			return
		}
		for i := 0; i < n; i++ {
			if src[i] == nil {
				if mode&mC14 != 0 {
					nd.Assert(out[i] == nil, "a NULL list element survives the round trip as NULL")
				}
			} else {
				nd.Assert(out[i] != nil, "a non-NULL list element does not come back as NULL")
				if out[i] != nil && mode&mC11 != 0 {
					nd.Assert(*out[i] == *src[i], "list element round trip")
				}
			}
		}
	}
}

// spec-formatted bytes decode to the value they denote
func verifListDecodeSpec(mode int) {
	nd.AllocBound(64)
	version := verifContainerVersions[nd.Choice("version", len(verifContainerVersions))]
	n := nd.Len("elements", 0, verifMaxElems())
	nulls := make([]bool, n)
	vals := make([]int32, n)
	var b []byte
	b = refCount(b, n, version)
	for i := 0; i < n; i++ {
		if version >= primitive.ProtocolVersion3 && nd.Choice(verifNullNames[i], 2) == 1 {
			nulls[i] = true
			b = refElem(b, true, 0, 4, version)
		} else {
			vals[i] = nd.Int32(verifValNames[i])
			b = refElem(b, false, uint64(uint32(vals[i])), 4, version)
		}
	}
	out, err := verifDecodeList(b, version)
	nd.Assert(err == nil, "spec-formatted list bytes decode")
	if err != nil {
		return
	}
	nd.Assert(len(out) == n, "spec-formatted list bytes decode to the denoted number of elements")
	if len(out) != n {
		return
	}
	for i := 0; i < n; i++ {
		if nulls[i] {
			nd.Assert(out[i] == nil, "an element of length -1 decodes as NULL")
		} else {
			nd.Assert(out[i] != nil && *out[i] == vals[i], "spec-formatted list element decodes to the value it denotes")
		}
	}
}

// ---- map ----

func verifMap(mode int) {
	nd.AllocBound(64)
	version := verifContainerVersions[nd.Choice("version", len(verifContainerVersions))]
	n := nd.Len("entries", 0, 2)
	keys := make([]*int16, n)
	vals := make([]*int32, n)
	anyNull := false
	enc := make([][]byte, n)
	for i := 0; i < n; i++ {
		var e []byte
		if i == 0 && nd.Choice(verifKeyNullNames[i], 2) == 1 { // at most one NULL key (a Go map has one nil key at most)
			anyNull = true
			e = refElem(e, true, 0, 2, version)
		} else {
			k := nd.Int16(verifKeyNames[i])
			keys[i] = &k
			e = refElem(e, false, uint64(uint16(k)), 2, version)
		}
		if nd.Choice(verifNullNames[i], 2) == 1 {
			anyNull = true
			e = refElem(e, true, 0, 4, version)
		} else {
			v := nd.Int32(verifValNames[i])
			vals[i] = &v
			e = refElem(e, false, uint64(uint32(v)), 4, version)
		}
		enc[i] = e
	}
	if n == 2 && keys[0] != nil {
		nd.Assume(*keys[0] != *keys[1]) // map keys are distinct
	}
	b, err := verifEncodeMap(keys, vals, version)
	if version == primitive.ProtocolVersion2 && anyNull {
		if mode&mC14 != 0 {
			nd.Assert(err != nil, "protocol v2 cannot express a NULL map key or value: encoding is refused")
		}
		return
	}
	nd.Assert(err == nil, "map encodes")
	if err != nil {
		return
	}
	if mode&mC12 != 0 {
		head := refCount(nil, n, version)
		switch n {
		case 0:
			nd.Assert(bytes.Equal(b, head), "empty map = count 0")
		case 1:
			nd.Assert(bytes.Equal(b, append(head, enc[0]...)), "map = count then key and value of each entry as [bytes] ([short bytes] in v2), NULL as length -1")
		case 2:
			w01 := append(append(append([]byte{}, head...), enc[0]...), enc[1]...)
			w10 := append(append(append([]byte{}, head...), enc[1]...), enc[0]...)
			ok := bytes.Equal(b, w01)
			if !ok {
				ok = bytes.Equal(b, w10) // iteration order of a Go map is unspecified
			}
			nd.Assert(ok, "map = count then key and value of each entry as [bytes] ([short bytes] in v2), NULL as length -1")
		}
	}
	if mode&(mC11|mC14) != 0 {
		ks, vs, err := verifDecodeMap(b, version)
		nd.Assert(err == nil, "own map bytes decode")
		if err != nil {
			return
		}
		nd.Assert(len(ks) == n && len(vs) == n, "map round trip keeps the entry count")
		if len(ks) != n || len(vs) != n {
			return
		}
		for i := 0; i < n; i++ {
			// find the decoded entry with the same key
			j := -1
			for c := 0; c < n; c++ {
				if (keys[i] == nil && ks[c] == nil) || (keys[i] != nil && ks[c] != nil && *keys[i] == *ks[c]) {
					j = c
				}
			}
			nd.Assert(j >= 0, "every map key (NULL included) survives the round trip")
			if j < 0 {
				continue
			}
			if vals[i] == nil {
				if mode&mC14 != 0 {
					nd.Assert(vs[j] == nil, "a NULL map value survives the round trip as NULL")
				}
			} else {
				nd.Assert(vs[j] != nil, "a non-NULL map value does not come back as NULL")
				if vs[j] != nil && mode&mC11 != 0 {
					nd.Assert(*vs[j] == *vals[i], "map value round trip")
				}
			}
		}
	}
}

// ---- tuple / udt ----

func verifPair(mode int, udt bool) {
	nd.AllocBound(64)
	version := verifContainerVersions[nd.Choice("version", len(verifContainerVersions))]
	var a *int32
	var b *int16
	var want []byte
	// tuples and UDT fields are successive [bytes] in every version (they exist from v3; the codec does not switch)
	if nd.Choice("a.null", 2) == 1 {
		want = append(want, 0xFF, 0xFF, 0xFF, 0xFF)
	} else {
		v := nd.Int32("a")
		a = &v
		want = append(append(want, 0, 0, 0, 4), refBE(uint64(uint32(v)), 4)...)
	}
	if nd.Choice("b.null", 2) == 1 {
		want = append(want, 0xFF, 0xFF, 0xFF, 0xFF)
	} else {
		v := nd.Int16("b")
		b = &v
		want = append(append(want, 0, 0, 0, 2), refBE(uint64(uint16(v)), 2)...)
	}
	enc, err := verifEncodePair(udt, a, b, version)
	nd.Assert(err == nil, "tuple / UDT encodes")
	if err != nil {
		return
	}
	if mode&mC12 != 0 {
		nd.Assert(bytes.Equal(enc, want), "tuples and UDTs are their fields as successive [bytes], NULL as length -1")
	}
	if mode&(mC11|mC14) != 0 {
		ga, gb, err := verifDecodePair(udt, enc, version)
		nd.Assert(err == nil, "own tuple / UDT bytes decode")
		if err != nil {
			return
		}
		if mode&mC14 != 0 {
			nd.Assert((ga == nil) == (a == nil), "NULL-ness of the first field survives the round trip")
			nd.Assert((gb == nil) == (b == nil), "NULL-ness of the second field survives the round trip")
		}
		if mode&mC11 != 0 {
			if a != nil && ga != nil {
				nd.Assert(*ga == *a, "first field round trip")
			}
			if b != nil && gb != nil {
				nd.Assert(*gb == *b, "second field round trip")
			}
		}
	}
}

func verifTuple(mode int) { verifPair(mode, false) }
func verifUdt(mode int)   { verifPair(mode, true) }

// ---- C04: arbitrary bytes into the container decoders ----

func verifNoPanicContainer(kind int, maxLen int) {
	nd.AllocBound(64)
	version := verifContainerVersions[nd.Choice("version", len(verifContainerVersions))]
	b := nd.Bytes("src", nd.Len("len", 0, maxLen))
	switch kind {
	case 0:
		verifDecodeList(b, version)
	case 1:
		verifDecodeMap(b, version)
	case 2:
		verifDecodePair(false, b, version)
	case 3:
		verifDecodePair(true, b, version)
	}
}

func verifContainerMaxLen() int {
	if verifThorough {
		return 12
	}
	return 8
}

func VerifC04_NoPanic_Decode_List()  { verifNoPanicContainer(0, verifContainerMaxLen()) }
func VerifC04_NoPanic_Decode_Map()   { verifNoPanicContainer(1, verifContainerMaxLen()) }
func VerifC04_NoPanic_Decode_Tuple() { verifNoPanicContainer(2, verifContainerMaxLen()) }
func VerifC04_NoPanic_Decode_Udt()   { verifNoPanicContainer(3, verifContainerMaxLen()) }
