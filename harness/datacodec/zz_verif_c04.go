package datacodec

import (
	"math/big"

	nd "github.com/datastax/go-cassandra-native-protocol/internal/zzverifnd"
)

// C04 for the scalar CQL value decoders: arbitrary bytes of every length 0..n into numeric and untyped destinations.
func verifNoPanicDecode(c Codec, n int) {
	nd.AllocBound(n + 2)
	b := nd.Bytes("b", nd.Len("len", 0, n))
	switch nd.Choice("dest", 10) {
	case 0:
		var d interface{}
		c.Decode(b, &d, verifVersion)
	case 1:
		var d int64
		c.Decode(b, &d, verifVersion)
	case 2:
		var d int8
		c.Decode(b, &d, verifVersion)
	case 3:
		var d uint16
		c.Decode(b, &d, verifVersion)
	case 4:
		d := new(big.Int)
		c.Decode(b, d, verifVersion)
	case 5:
		var d float32
		c.Decode(b, &d, verifVersion)
	case 6:
		var d bool
		c.Decode(b, &d, verifVersion)
	case 7:
		var d CqlDuration
		c.Decode(b, &d, verifVersion)
	case 8:
		var d *int32 // nil destination
		c.Decode(b, d, verifVersion)
	case 9:
		d := new(big.Float) // SetFloat64 panics on NaN (its documented contract, carried by the engine's stub)
		c.Decode(b, d, verifVersion)
	}
	nd.Assert(true, "returned")
}

func VerifC04_NoPanic_Decode_Tinyint()  { verifNoPanicDecode(Tinyint, 3) }
func VerifC04_NoPanic_Decode_Smallint() { verifNoPanicDecode(Smallint, 3) }
func VerifC04_NoPanic_Decode_Int()      { verifNoPanicDecode(Int, 5) }
func VerifC04_NoPanic_Decode_Bigint()   { verifNoPanicDecode(Bigint, 9) }
func VerifC04_NoPanic_Decode_Counter()  { verifNoPanicDecode(Counter, 9) }
func VerifC04_NoPanic_Decode_Varint()   { verifNoPanicDecode(Varint, 9) }
func VerifC04_NoPanic_Decode_Float()    { verifNoPanicDecode(Float, 5) }
func VerifC04_NoPanic_Decode_Double()   { verifNoPanicDecode(Double, 9) }
func VerifC04_NoPanic_Decode_Boolean()  { verifNoPanicDecode(Boolean, 2) }
func VerifC04_NoPanic_Decode_Decimal()  { verifNoPanicDecode(Decimal, 7) }
func VerifC04_NoPanic_Decode_Duration() { verifNoPanicDecode(Duration, 5) }
func VerifC04_NoPanic_Decode_Blob()     { verifNoPanicDecode(Blob, 3) }
func VerifC04_NoPanic_Decode_Uuid()     { verifNoPanicDecode(Uuid, 17) }
func VerifC04_NoPanic_Decode_Inet()     { verifNoPanicDecode(Inet, 17) }
